/-
  `nop::Variant<Ts...>` (include/nop/types/variant.h, detail/variant.h) as a state machine over
  a world of several variants whose element types track their own lifetime.

  A variant is modelled as the code has it: the `index_` member and, separately, what the
  recursive `Union` physically holds (`slot`). Nothing in the model forces the two to agree —
  the theorems show that every operation sequence keeps them in agreement.
-/
namespace Nop.Life

/-- a live element object inside a variant's storage: which alternative's member it occupies,
the identity of the tracked object (0 for trivially destructible alternatives), its value -/
structure Elem where
  alt : Nat
  id : Nat
  val : Int
  deriving Repr, DecidableEq

structure VState where
  index : Int := -1                 -- the `index_` member (Optional: `!empty`; Result: `state_ == Value`)
  slot : Option Elem := none        -- the union member that currently holds a constructed object
  err : Int := 0                    -- Result only: the error code when in the Error state (0 = ErrorEnum::None)
  deriving Repr, DecidableEq

inductive Ev | ctor (id : Nat) | assign (id : Nat) | dtor (id : Nat)
  deriving Repr, DecidableEq

structure World where
  n : Nat                           -- number of alternatives
  tracked : Nat → Bool              -- alternative a has a lifetime-tracking element type
  vars : List (Option VState)       -- variant objects (none = storage not holding a Variant)
  nextId : Nat := 1
  live : List Nat := []             -- ids of tracked elements constructed and not yet destroyed
  log : List Ev := []               -- construction / assignment / destruction events, oldest first
  ub : Bool := false                -- an operation touched a dead or wrongly-typed object
  deriving Inhabited

def World.get (w : World) (v : Nat) : Option VState := (w.vars.getD v none)
def World.set (w : World) (v : Nat) (s : Option VState) : World := { w with vars := w.vars.set v s }

/-- a tracked object comes to life: fresh identity, recorded as live, constructor event -/
def World.grow (w : World) : World :=
  { w with nextId := w.nextId + 1, live := w.live ++ [w.nextId], log := w.log ++ [.ctor w.nextId] }

/-- placement-new of an element of alternative `a` (value `x`); `throws` = its constructor
throws. Returns the new world and the element if construction completed. -/
def construct (w : World) (a : Nat) (x : Int) (throws : Bool) : World × Option Elem :=
  if throws && w.tracked a then (w, none)
  else if w.tracked a then
    (w.grow, some ⟨a, w.nextId, x⟩)
  else (w, some ⟨a, 0, x⟩)

/-- run the destructor of the object in a slot -/
def destroyElem (w : World) (e : Elem) : World :=
  if w.tracked e.alt then
    if w.live.contains e.id then { w with live := w.live.erase e.id, log := w.log ++ [.dtor e.id] }
    else { w with ub := true, log := w.log ++ [.dtor e.id] }
  else w

/-- `Union::Destruct(index_)` then `index_ = kEmptyIndex` (Variant::Destruct) -/
def vDestruct (w : World) (s : VState) : World × VState :=
  if 0 ≤ s.index ∧ s.index < w.n then
    match s.slot with
    | some e =>
      if (e.alt : Int) = s.index then (destroyElem w e, { index := -1, slot := none })
      else ({ w with ub := true }, { index := -1, slot := s.slot })     -- wrong member destroyed
    | none => ({ w with ub := true }, { index := -1, slot := none })    -- destroying a dead object
  else (w, { index := -1, slot := s.slot })                               -- nothing to destroy

/-- `Variant::Construct(TypeTag<T>, value)`: the index is assigned only if construction completes -/
def vConstruct (w : World) (s : VState) (a : Nat) (x : Int) (throws : Bool) : World × VState :=
  match construct w a x throws with
  | (w', some e) => (w', { index := a, slot := some e })
  | (w', none) => (w', s)

/-- `Variant::Assign(TypeTag<T>, value)`: assign in place when alternative `a` is active,
otherwise Destruct then Construct -/
def vAssign (w : World) (s : VState) (a : Nat) (x : Int) (throws : Bool) : World × VState :=
  if s.index = a then
    match s.slot with
    | some e =>
      (if w.tracked a then { w with log := w.log ++ [.assign e.id] } else w, { s with slot := some { e with val := x } })
    | none => ({ w with ub := true }, s)
  else
    let (w1, s1) := vDestruct w s
    -- (Result::Assign(T) likewise calls Destruct() before constructing over the error member)
    vConstruct w1 s1 a x throws

/-- operations on the world; `v`, `src` are variant slots; `throws` arms the next tracked
element constructor to throw -/
inductive Op
  | mkEmpty (v : Nat)                                  -- Variant()
  | mkValue (v a : Nat) (x : Int) (throws : Bool)       -- Variant(T&&)
  | mkCopy (v src : Nat) (throws : Bool)                -- Variant(const Variant&)
  | mkMove (v src : Nat) (throws : Bool)                -- Variant(Variant&&)
  | assignValue (v a : Nat) (x : Int) (throws : Bool)   -- v = T(x)
  | assignCopy (v src : Nat) (throws : Bool)            -- v = w  (also v = v)
  | assignMove (v src : Nat) (throws : Bool)            -- v = std::move(w)
  | assignEmpty (v : Nat)                               -- v = EmptyVariant{}
  | become (v : Nat) (i : Int) (throws : Bool)          -- v.Become(i)
  | visit (v : Nat)                                     -- v.Visit(op)
  | get (v a : Nat)                                     -- v.get<T_a>()
  | destroy (v : Nat)                                   -- ~Variant / ~Optional / ~Result
  -- Optional<T> / Entry<T,Id> / Result<E,T> are the one-alternative instance (n = 1) of the same
  -- storage discipline; these operations differ from Variant's:
  | oMoveAssign (v src : Nat) (throws : Bool)           -- a = std::move(b): assigns, then empties b (no-op when &a == &b)
  | rMoveCtor (v src : Nat) (throws : Bool)             -- Result(Result&&): *this = std::move(other)
  | rMkErr (v : Nat) (e : Int)                          -- Result(ErrorEnum)
  | rAssignErr (v : Nat) (e : Int)                      -- r = ErrorEnum
  | rAssignCopy (v src : Nat) (throws : Bool)           -- r = other (copies value or error)
  -- objects of a different Variant / Optional type whose elements convert to this one's:
  -- `conv` maps the source's active alternative to the alternative constructed from it
  | cMkCopy (v src : Nat) (conv : List Nat) (throws : Bool)     -- Variant(const Variant<Us...>&): Visit + Construct(value)
  | cAssign (v src : Nat) (conv : List Nat) (throws : Bool)     -- v = other: Visit + converting assignment / Optional<U> copy
  | cMoveAssign (v src : Nat) (conv : List Nat) (throws : Bool) -- Optional: a = std::move(Optional<U>): assigns, then empties the source
  | has (v : Nat)                                       -- has_value() / !empty() / operator bool
  | errOf (v : Nat)                                     -- has_error(), error()
  deriving Repr

/-- what the caller observes -/
inductive Obs
  | none
  | index (i : Int)
  | visited (e : Option Elem)          -- the visitor's single call: the active element or EmptyVariant
  | got (e : Option Elem)              -- get<T>(): non-null with that element, or null
  | flag (b : Bool)                    -- has_value()
  | error (has : Bool) (e : Int)       -- has_error(), error()
  | skipped                            -- operation not applicable in this state (never generated)
  deriving Repr, DecidableEq

def step (w : World) : Op → World × Obs
  | .mkEmpty v =>
    match w.get v with
    | some _ => (w, .skipped)
    | none => if v < w.vars.length then (w.set v (some {}), .index (-1)) else (w, .skipped)
  | .mkValue v a x t =>
    match w.get v with
    | some _ => (w, .skipped)
    | none =>
      if a < w.n ∧ v < w.vars.length then
        -- value_(0, &index_, tag, value): the member initialiser constructs the element, then sets index
        match construct w a x t with
        | (w', some e) => (w'.set v (some { index := a, slot := some e }), .index a)
        | (w', none) => (w', .none)            -- constructor threw: no Variant object comes to exist
      else (w, .skipped)
  | .mkCopy v src t =>
    match w.get v, w.get src with
    | none, some s =>
      -- index_{other.index_}, value_{other.value_, other.index_}
      if ¬ v < w.vars.length then (w, .skipped) else
      if 0 ≤ s.index ∧ s.index < w.n then
        match s.slot with
        | some e =>
          match construct w s.index.toNat e.val t with
          | (w', some e') => (w'.set v (some { index := s.index, slot := some e' }), .index s.index)
          | (w', none) => (w', .none)
        | none => ({ w with ub := true }, .none)
      else (w.set v (some { index := s.index, slot := none, err := s.err }), .index s.index)
    | _, _ => (w, .skipped)
  | .mkMove v src t =>
    match w.get v, w.get src with
    | none, some s =>
      if ¬ v < w.vars.length then (w, .skipped) else
      if 0 ≤ s.index ∧ s.index < w.n then
        match s.slot with
        | some e =>
          match construct w s.index.toNat e.val t with
          | (w', some e') => (w'.set v (some { index := s.index, slot := some e' }), .index s.index)
          | (w', none) => (w', .none)
        | none => ({ w with ub := true }, .none)
      else (w.set v (some { index := s.index, slot := none }), .index s.index)
    | _, _ => (w, .skipped)
  | .assignValue v a x t =>
    match w.get v with
    | some s =>
      if a < w.n then
        let (w', s') := vAssign w s a x t
        (w'.set v (some s'), .index s'.index)
      else (w, .skipped)
    | none => (w, .skipped)
  | .assignCopy v src t =>
    match w.get v, w.get src with
    | some s, some o =>
      -- other.Visit([this](const auto& value) { *this = value; })
      if 0 ≤ o.index ∧ o.index < w.n then
        match o.slot with
        | some e =>
          let (w', s') := vAssign w s o.index.toNat e.val t
          (w'.set v (some s'), .index s'.index)
        | none => ({ w with ub := true }, .none)
      else
        let (w', s') := vDestruct w s
        (w'.set v (some s'), .index s'.index)
    | _, _ => (w, .skipped)
  | .assignMove v src t =>
    match w.get v, w.get src with
    | some s, some o =>
      if 0 ≤ o.index ∧ o.index < w.n then
        match o.slot with
        | some e =>
          let (w', s') := vAssign w s o.index.toNat e.val t
          (w'.set v (some s'), .index s'.index)
        | none => ({ w with ub := true }, .none)
      else
        let (w', s') := vDestruct w s
        (w'.set v (some s'), .index s'.index)
    | _, _ => (w, .skipped)
  | .assignEmpty v =>
    match w.get v with
    | some s =>
      let (w', s') := vDestruct w s
      (w'.set v (some s'), .index s'.index)
    | none => (w, .skipped)
  | .become v i t =>
    match w.get v with
    | some s =>
      if i ≠ s.index then
        let (w1, s1) := vDestruct w s
        if 0 ≤ i ∧ i < w.n then
          -- value_.Become(i) default-constructs alternative i, then index_ = i
          match construct w1 i.toNat 0 t with
          | (w2, some e) => (w2.set v (some { index := i, slot := some e }), .index i)
          | (w2, none) => (w2.set v (some s1), .none)     -- threw after Destruct(): stays empty
        else (w1.set v (some s1), .index s1.index)        -- out of range: empty
      else (w, .index s.index)
    | none => (w, .skipped)
  | .visit v =>
    match w.get v with
    | some s =>
      if 0 ≤ s.index ∧ s.index < w.n then
        match s.slot with
        | some e => if (e.alt : Int) = s.index then (w, .visited (some e)) else ({ w with ub := true }, .none)
        | none => ({ w with ub := true }, .none)
      else (w, .visited none)
    | none => (w, .skipped)
  | .get v a =>
    match w.get v with
    | some s =>
      if s.index = a then
        match s.slot with
        | some e => (w, .got (some e))
        | none => ({ w with ub := true }, .none)
      else (w, .got none)
    | none => (w, .skipped)
  | .destroy v =>
    match w.get v with
    | some s =>
      let (w', _) := vDestruct w s
      (w'.set v none, .none)
    | none => (w, .skipped)
  | _ => (w, .skipped)

/-- the remaining operations (Optional / Entry / Result) -/
def step2 (w : World) : Op → World × Obs
  | .oMoveAssign v src t =>
    match w.get v, w.get src with
    | some s, some o =>
      if v = src then (w, .index s.index) else
      if 0 ≤ o.index ∧ o.index < w.n then
        match o.slot with
        | some e =>
          -- Assign(other.take()); other.Destruct();
          let (w1, s1) := vAssign w s o.index.toNat e.val t
          let w2 := w1.set v (some s1)
          -- a throwing element constructor leaves Assign by exception: other.Destruct() is not reached
          if t && w.tracked o.index.toNat && s.index != o.index then (w2, .index s1.index) else
          let (w3, o3) := vDestruct w2 o
          (w3.set src (some o3), .index s1.index)
        | none => ({ w with ub := true }, .none)
      else
        -- source not engaged: Destruct() (Result: then take over its error); the source's own
        -- Destruct() is a no-op for Optional and resets a Result's error to None
        let (w1, s1) := vDestruct w s
        let w2 := w1.set v (some { s1 with err := o.err })
        (w2.set src (some { index := -1, slot := none, err := 0 }), .index s1.index)
    | _, _ => (w, .skipped)
  | .rMoveCtor v src t =>
    match w.get v, w.get src with
    | none, some o =>
      if ¬ v < w.vars.length ∨ v = src then (w, .skipped) else
      if 0 ≤ o.index ∧ o.index < w.n then
        match o.slot with
        | some e =>
          match construct w o.index.toNat e.val t with
          | (w1, some e') =>
            let w2 := w1.set v (some { index := o.index, slot := some e' })
            let (w3, o3) := vDestruct w2 o
            (w3.set src (some o3), .index o.index)
          | (w1, none) => (w1, .none)
        | none => ({ w with ub := true }, .none)
      else
        let w1 := w.set v (some { index := -1, slot := none, err := o.err })
        (w1.set src (some { index := -1, slot := none, err := 0 }), .index (-1))
    | _, _ => (w, .skipped)
  | .rMkErr v e =>
    match w.get v with
    | some _ => (w, .skipped)
    | none => if v < w.vars.length then (w.set v (some { index := -1, slot := none, err := e }), .index (-1)) else (w, .skipped)
  | .rAssignErr v e =>
    match w.get v with
    | some s =>
      let (w1, s1) := vDestruct w s
      (w1.set v (some { s1 with err := e }), .index s1.index)
    | none => (w, .skipped)
  | .rAssignCopy v src t =>
    match w.get v, w.get src with
    | some s, some o =>
      if v = src then (w, .index s.index) else
      if 0 ≤ o.index ∧ o.index < w.n then
        match o.slot with
        | some e =>
          let (w', s') := vAssign w s o.index.toNat e.val t
          (w'.set v (some s'), .index s'.index)
        | none => ({ w with ub := true }, .none)
      else
        let (w1, s1) := vDestruct w s
        (w1.set v (some { s1 with err := o.err }), .index s1.index)
    | _, _ => (w, .skipped)
  | .cMkCopy v src conv t =>
    match w.get v, w.get src with
    | none, some o =>
      if ¬ v < w.vars.length then (w, .skipped) else
      if 0 ≤ o.index ∧ o.index < w.n then
        match o.slot with
        | some e =>
          if conv.getD e.alt w.n < w.n then
            match construct w (conv.getD e.alt w.n) e.val t with
            | (w', some e') => (w'.set v (some { index := (conv.getD e.alt w.n : Nat), slot := some e' }), .index (conv.getD e.alt w.n : Nat))
            | (w', none) => (w', .none)
          else (w, .skipped)
        | none => ({ w with ub := true }, .none)
      else (w.set v (some {}), .index (-1))
    | _, _ => (w, .skipped)
  | .cAssign v src conv t =>
    match w.get v, w.get src with
    | some s, some o =>
      if 0 ≤ o.index ∧ o.index < w.n then
        match o.slot with
        | some e =>
          if conv.getD e.alt w.n < w.n then
            let (w', s') := vAssign w s (conv.getD e.alt w.n) e.val t
            (w'.set v (some s'), .index s'.index)
          else (w, .skipped)
        | none => ({ w with ub := true }, .none)
      else
        let (w', s') := vDestruct w s
        (w'.set v (some s'), .index s'.index)
    | _, _ => (w, .skipped)
  | .cMoveAssign v src conv t =>
    match w.get v, w.get src with
    | some s, some o =>
      if v = src then (w, .skipped) else
      if 0 ≤ o.index ∧ o.index < w.n then
        match o.slot with
        | some e =>
          if conv.getD e.alt w.n < w.n then
            let (w1, s1) := vAssign w s (conv.getD e.alt w.n) e.val t
            let w2 := w1.set v (some s1)
            if t && w.tracked (conv.getD e.alt w.n) && s.index != (conv.getD e.alt w.n : Nat) then (w2, .index s1.index) else
            let (w3, o3) := vDestruct w2 o
            (w3.set src (some o3), .index s1.index)
          else (w, .skipped)
        | none => ({ w with ub := true }, .none)
      else
        let (w', s') := vDestruct w s
        (w'.set v (some s'), .index s'.index)
    | _, _ => (w, .skipped)
  | .has v =>
    match w.get v with
    | some s => (w, .flag (decide (0 ≤ s.index)))
    | none => (w, .skipped)
  | .errOf v =>
    match w.get v with
    | some s => (w, .error (decide (s.index < 0 ∧ s.err ≠ 0)) (if s.index < 0 then s.err else 0))
    | none => (w, .skipped)
  | op => step w op

/-- the initial world: `k` slots, no Variant object yet -/
def World.init (n : Nat) (tracked : Nat → Bool) (k : Nat) : World :=
  { n, tracked, vars := List.replicate k none }

def run (w : World) (ops : List Op) : World := ops.foldl (fun w op => (step2 w op).1) w

end Nop.Life
