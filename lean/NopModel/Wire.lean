/-
  Wire-level definitions: bytes, error codes, integer kinds, little-endian
  payloads and the integer classes of `include/nop/base/encoding.h`.
  Core Lean only (no Mathlib) so that the driver links as a native executable.
-/
namespace Nop

abbrev Bytes := List UInt8

/-- `nop::ErrorStatus` (include/nop/status.h), same order. -/
inductive Err
  | none | unexpectedEncodingType | unexpectedHandleType | unexpectedVariantType
  | invalidContainerLength | invalidMemberCount | invalidStringLength | invalidTableHash
  | invalidHandleReference | invalidHandleValue | invalidInterfaceMethod | duplicateTableEntry
  | readLimitReached | writeLimitReached | streamError | protocolError | ioError | systemError
  | debugError
  deriving DecidableEq, Repr, Inhabited

def Err.all : List Err :=
  [.none, .unexpectedEncodingType, .unexpectedHandleType, .unexpectedVariantType,
   .invalidContainerLength, .invalidMemberCount, .invalidStringLength, .invalidTableHash,
   .invalidHandleReference, .invalidHandleValue, .invalidInterfaceMethod, .duplicateTableEntry,
   .readLimitReached, .writeLimitReached, .streamError, .protocolError, .ioError, .systemError,
   .debugError]

def Err.name : Err → String
  | .none => "None" | .unexpectedEncodingType => "UnexpectedEncodingType"
  | .unexpectedHandleType => "UnexpectedHandleType" | .unexpectedVariantType => "UnexpectedVariantType"
  | .invalidContainerLength => "InvalidContainerLength" | .invalidMemberCount => "InvalidMemberCount"
  | .invalidStringLength => "InvalidStringLength" | .invalidTableHash => "InvalidTableHash"
  | .invalidHandleReference => "InvalidHandleReference" | .invalidHandleValue => "InvalidHandleValue"
  | .invalidInterfaceMethod => "InvalidInterfaceMethod" | .duplicateTableEntry => "DuplicateTableEntry"
  | .readLimitReached => "ReadLimitReached" | .writeLimitReached => "WriteLimitReached"
  | .streamError => "StreamError" | .protocolError => "ProtocolError" | .ioError => "IOError"
  | .systemError => "SystemError" | .debugError => "DebugError"

def Err.ofName? (s : String) : Option Err := Err.all.find? (fun e => e.name == s)

/-- `Status<T>::GetErrorMessage` as written in status.h. -/
def Err.message : Err → String
  | .none => "No Error" | .unexpectedEncodingType => "Unexpected Encoding Type"
  | .unexpectedHandleType => "Unexpected Handle Type" | .unexpectedVariantType => "Unexpected Variant Type"
  | .invalidContainerLength => "Invalid Container Length" | .invalidMemberCount => "Invalid Member Count"
  | .invalidStringLength => "Invalid String Length" | .invalidTableHash => "Invalid Table Hash"
  | .invalidHandleReference => "Invalid Handle Reference" | .invalidHandleValue => "Invalid Handle Value"
  | .invalidInterfaceMethod => "Invalid Interface Method" | .duplicateTableEntry => "Duplicate Table Hash"
  | .readLimitReached => "Read Limit Reached" | .writeLimitReached => "Write Limit Reached"
  | .streamError => "Stream Error" | .protocolError => "Protocol Error" | .ioError => "IO Error"
  | .systemError => "System Error" | .debugError => "Debug Error"

def Err.code (e : Err) : Nat := (Err.all.idxOf e)

/-- `enum class EncodingByte` (include/nop/base/encoding_byte.h), names and values in order. -/
def prefixTable : List (String × Nat) :=
  [("PositiveFixInt", 0x00), ("PositiveFixIntMin", 0x00), ("PositiveFixIntMax", 0x7f), ("PositiveFixIntMask", 0x7f),
   ("False", 0x00), ("True", 0x01), ("U8", 0x80), ("U16", 0x81), ("U32", 0x82), ("U64", 0x83), ("I8", 0x84),
   ("I16", 0x85), ("I32", 0x86), ("I64", 0x87), ("F32", 0x88), ("F64", 0x89), ("ReservedMin", 0x8a),
   ("ReservedMax", 0xb4), ("Table", 0xb5), ("Error", 0xb6), ("Handle", 0xb7), ("Variant", 0xb8), ("Structure", 0xb9),
   ("Array", 0xba), ("Map", 0xbb), ("Binary", 0xbc), ("String", 0xbd), ("Nil", 0xbe), ("Extension", 0xbf),
   ("NegativeFixInt", 0xc0), ("NegativeFixIntMin", 0xc0), ("NegativeFixIntMax", 0xff)]

/-- The prefix table of docs/format.md: (label, first byte, last byte, enumerator for the first byte). -/
def docTable : List (String × Nat × Nat × String) :=
  [("POS", 0x00, 0x7f, "PositiveFixIntMin"), ("F", 0x00, 0x00, "False"), ("T", 0x01, 0x01, "True"),
   ("U8", 0x80, 0x80, "U8"), ("U16", 0x81, 0x81, "U16"), ("U32", 0x82, 0x82, "U32"), ("U64", 0x83, 0x83, "U64"),
   ("I8", 0x84, 0x84, "I8"), ("I16", 0x85, 0x85, "I16"), ("I32", 0x86, 0x86, "I32"), ("I64", 0x87, 0x87, "I64"),
   ("F32", 0x88, 0x88, "F32"), ("F64", 0x89, 0x89, "F64"), ("", 0x8a, 0xb4, "ReservedMin"),
   ("TAB", 0xb5, 0xb5, "Table"), ("ERR", 0xb6, 0xb6, "Error"), ("HND", 0xb7, 0xb7, "Handle"), ("VAR", 0xb8, 0xb8, "Variant"),
   ("STU", 0xb9, 0xb9, "Structure"), ("ARY", 0xba, 0xba, "Array"), ("MAP", 0xbb, 0xbb, "Map"), ("BIN", 0xbc, 0xbc, "Binary"),
   ("STR", 0xbd, 0xbd, "String"), ("NIL", 0xbe, 0xbe, "Nil"), ("EXT", 0xbf, 0xbf, "Extension"),
   ("NEG", 0xc0, 0xff, "NegativeFixIntMin")]

/-- Fixed-width integer kinds. -/
inductive IntKind | u8 | u16 | u32 | u64 | i8 | i16 | i32 | i64
  deriving DecidableEq, Repr, Inhabited

namespace IntKind
def bytes : IntKind → Nat
  | u8 | i8 => 1 | u16 | i16 => 2 | u32 | i32 => 4 | u64 | i64 => 8
def bits (k : IntKind) : Nat := 8 * k.bytes
def signed : IntKind → Bool
  | i8 | i16 | i32 | i64 => true | _ => false
/-- smallest / largest representable value -/
def minVal (k : IntKind) : Int := if k.signed then -(2 ^ (k.bits - 1) : Nat) else 0
def maxVal (k : IntKind) : Int := if k.signed then (2 ^ (k.bits - 1) : Nat) - 1 else (2 ^ k.bits : Nat) - 1
def inRange (k : IntKind) (i : Int) : Bool := k.minVal ≤ i && i ≤ k.maxVal
def name : IntKind → String
  | u8 => "u8" | u16 => "u16" | u32 => "u32" | u64 => "u64"
  | i8 => "i8" | i16 => "i16" | i32 => "i32" | i64 => "i64"
def all : List IntKind := [u8, u16, u32, u64, i8, i16, i32, i64]
def ofName? (s : String) : Option IntKind := all.find? (fun k => k.name == s)
end IntKind

/-- `n` little-endian bytes of `x` (mod 256^n). -/
def leBytes : Nat → Nat → Bytes
  | 0, _ => []
  | n + 1, x => UInt8.ofNat (x % 256) :: leBytes n (x / 256)

/-- value of a little-endian byte string -/
def ofLE : Bytes → Nat
  | [] => 0
  | b :: r => b.toNat + 256 * ofLE r

/-- two's complement: the `bits`-bit pattern of `i`. -/
def toU (bits : Nat) (i : Int) : Nat := (i % (2 ^ bits : Nat)).toNat
/-- two's complement: the signed value of a `bits`-bit pattern. -/
def toS (bits : Nat) (u : Nat) : Int :=
  if u < 2 ^ (bits - 1) then (u : Int) else (u : Int) - (2 ^ bits : Nat)

/-- the value of raw little-endian bytes read as kind `k` (`ReadAs<k>` + static_cast) -/
def rawToInt (k : IntKind) (bs : Bytes) : Int :=
  if k.signed then toS k.bits (ofLE bs) else (ofLE bs : Int)
/-- raw little-endian bytes of a value of kind `k` (`WriteAs<k>`) -/
def intToRaw (k : IntKind) (i : Int) : Bytes := leBytes k.bytes (toU k.bits i)

/-! ### Integer classes: `Encoding<intN_t>::Prefix/WritePayload` -/

/-- `Encoding<uintN_t>::Write`, the if-chain of `Prefix` (encoding.h). The chain for a
narrower type is a prefix of the chain for `uint64_t`; values of a narrower type never
reach the later branches. -/
def encUnsigned (x : Nat) : Bytes :=
  if x < 128 then [UInt8.ofNat x]
  else if x < 256 then 0x80 :: leBytes 1 x
  else if x < 65536 then 0x81 :: leBytes 2 x
  else if x < 4294967296 then 0x82 :: leBytes 4 x
  else 0x83 :: leBytes 8 x

/-- `Encoding<intN_t>::Write`. -/
def encSigned (i : Int) : Bytes :=
  if -64 ≤ i ∧ i ≤ 127 then [UInt8.ofNat (toU 8 i)]
  else if -128 ≤ i ∧ i ≤ 127 then 0x84 :: leBytes 1 (toU 8 i)
  else if -32768 ≤ i ∧ i ≤ 32767 then 0x85 :: leBytes 2 (toU 16 i)
  else if -2147483648 ≤ i ∧ i ≤ 2147483647 then 0x86 :: leBytes 4 (toU 32 i)
  else 0x87 :: leBytes 8 (toU 64 i)

def encInt (k : IntKind) (i : Int) : Bytes :=
  if k.signed then encSigned i else encUnsigned i.toNat

/-- `Encoding<intN_t>::Match` -/
def intMatch (k : IntKind) (p : UInt8) : Bool :=
  let n := p.toNat
  if k.signed then
    n < 128 || 192 ≤ n || n == 0x84 || (n == 0x85 && 2 ≤ k.bytes) || (n == 0x86 && 4 ≤ k.bytes)
      || (n == 0x87 && 8 ≤ k.bytes)
  else
    n < 128 || n == 0x80 || (n == 0x81 && 2 ≤ k.bytes) || (n == 0x82 && 4 ≤ k.bytes)
      || (n == 0x83 && 8 ≤ k.bytes)

/-- number of payload bytes that follow integer-class prefix `p` when read as kind `k`
(`ReadPayload`: an explicit class reads that class's width, a fixint reads nothing). -/
def intPayloadLen (k : IntKind) (p : UInt8) : Nat :=
  let n := p.toNat
  if k.signed then
    if n == 0x84 then 1 else if n == 0x85 then 2 else if n == 0x86 then 4 else if n == 0x87 then 8 else 0
  else
    if n == 0x80 then 1 else if n == 0x81 then 2 else if n == 0x82 then 4 else if n == 0x83 then 8 else 0

/-- value denoted by prefix `p` and payload `bs` (`ReadPayload`). -/
def intOfPayload (k : IntKind) (p : UInt8) (bs : Bytes) : Int :=
  if k.signed then
    if intPayloadLen k p == 0 then toS 8 p.toNat else toS (8 * intPayloadLen k p) (ofLE bs)
  else
    if intPayloadLen k p == 0 then (p.toNat : Int) else (ofLE bs : Int)

/-- `BaseEncodingSize` (encoding.h). -/
def baseEncodingSize (p : UInt8) : Nat :=
  let n := p.toNat
  if n < 128 || 192 ≤ n then 1
  else if 0xb5 ≤ n && n ≤ 0xbf then 1
  else if n == 0x80 || n == 0x84 then 2
  else if n == 0x81 || n == 0x85 then 3
  else if n == 0x82 || n == 0x86 || n == 0x88 then 5
  else if n == 0x83 || n == 0x87 || n == 0x89 then 9
  else 0

end Nop
