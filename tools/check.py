#!/usr/bin/env python3
"""python3 tools/check.py <property id> [--tier quick|thorough] [--replay FILE]

Decides one property of /verif/properties.jsonl for the current working tree of /repo:

 1. proof obligations: regenerate NopModel/Generated.lean from /repo, `lake build`, audit the
    axioms of the property's theorems;
 2. correspondence: rebuild the C++ harness from /repo's working tree, run the real library
    and the Lean model (native driver) on the same generated operations, compare;
 3. if (1) or (2) no longer checks, search the implementation for a concrete failing input
    (the harness evaluates the property itself on every input it runs: X lines).

Prints KNOWN-FINDING lines, `VIOLATION property=<id> replay=<file>[ no-failing-input-found]`,
exits 0/1, always rewrites evidence/<id>.json.
"""
import json
import os
import sys
import time

sys.path.insert(0, os.path.dirname(os.path.abspath(__file__)))
import nv  # noqa: E402
import props  # noqa: E402


def main():
    args = sys.argv[1:]
    if not args:
        print(__doc__)
        return 2
    pid = args[0]
    tier = os.environ.get('VERIF_TIER', 'quick')
    replay = None
    i = 1
    while i < len(args):
        if args[i] == '--tier':
            tier = args[i + 1]; i += 2
        elif args[i] == '--replay':
            replay = args[i + 1]; i += 2
        else:
            print('bad argument', args[i]); return 2
    seed = int(os.environ.get('VERIF_SEED', '1'))
    if pid not in props.PROPS:
        print('unknown property', pid)
        return 2
    if replay:
        return props.replay(pid, replay)
    t0 = time.time()
    run = props.Run(pid, tier, seed)
    try:
        run.execute()
    except nv.BuildError as e:
        run.broken_machinery(e)
    return run.finish(time.time() - t0)


if __name__ == '__main__':
    sys.exit(main())
