#!/usr/bin/env python3
"""Constant extractor: regenerates lean/NopModel/Generated.lean from /repo on every run.

* a tiny C++ program compiled against /repo/include prints BaseEncodingSize for all 256
  prefix bytes, every EncodingByte / ErrorStatus enumerator value, GetErrorMessage for each
  ErrorStatus, sizeof(SizeType), the SipHash keys, Variant::kEmptyIndex, kEmptyHandleReference;
* enumerator *names* are read from the headers, the prefix table from docs/format.md.
NopModel/Properties/Generated.lean proves (by `decide`) that these equal what the model uses.
"""
import os
import re
import subprocess
import sys

sys.path.insert(0, os.path.dirname(os.path.abspath(__file__)))
import nv


def enum_names(path, enum):
    src = open(path).read()
    m = re.search(r'enum class %s[^{]*\{(.*?)\};' % enum, src, re.S)
    body = re.sub(r'//.*', '', m.group(1))
    names = []
    for item in body.split(','):
        item = item.strip()
        if not item:
            continue
        names.append(item.split('=')[0].strip())
    return names


def doc_prefix_rows():
    rows = []
    text = open(os.path.join(nv.REPO, 'docs', 'format.md')).read()
    start = text.index('### Prefix Definitions')
    end = text.index('\n#', start + 10)
    for line in text[start:end].split('\n'):
        cols = [c.strip() for c in line.split('|')]
        if len(cols) >= 5 and re.match(r'0x[0-9a-f]{2}', cols[3]):
            hx = re.findall(r'0x([0-9a-f]{2})', cols[3])
            lo = int(hx[0], 16)
            hi = int(hx[-1], 16)
            rows.append((cols[0], cols[1], lo, hi))
    return rows


def generate():
    inc = os.path.join(nv.REPO, 'include')
    ebytes = enum_names(os.path.join(inc, 'nop', 'base', 'encoding_byte.h'), 'EncodingByte')
    errs = enum_names(os.path.join(inc, 'nop', 'status.h'), 'ErrorStatus')
    prog = ['#include <cstdio>', '#include <cstdint>', '#include <nop/serializer.h>', '#include <nop/status.h>',
            '#include <nop/table.h>', '#include <nop/rpc/interface.h>', '#include <nop/types/variant.h>',
            '#include <nop/types/handle.h>', '#include <nop/types/optional.h>', '#include <map>', '#include <tuple>', '#include <array>', '#include <vector>', '#include <string>', 'int main() {']
    for n in ebytes:
        prog.append('  std::printf("EB %s %%u\\n", static_cast<unsigned>(nop::EncodingByte::%s));' % (n, n))
    for n in errs:
        prog.append('  { nop::Status<void> s{nop::ErrorStatus::%s}; std::printf("ER %s %%d %%s\\n", static_cast<int>(nop::ErrorStatus::%s), '
                    'nop::ErrorStatus::%s == nop::ErrorStatus::None ? nop::Status<int>{}.GetErrorMessage() : s.GetErrorMessage()); }' % (n, n, n, n))
    prog.append('  for (int b = 0; b < 256; b++) std::printf("BS %d %zu\\n", b, nop::BaseEncodingSize(static_cast<nop::EncodingByte>(b)));')
    prog.append('  std::printf("K sizeofSizeType %zu\\n", sizeof(nop::SizeType));')
    prog.append('  std::printf("K tableKey0 %llu\\n", (unsigned long long)nop::kNopTableKey0);')
    prog.append('  std::printf("K tableKey1 %llu\\n", (unsigned long long)nop::kNopTableKey1);')
    prog.append('  std::printf("K interfaceKey0 %llu\\n", (unsigned long long)nop::kNopInterfaceKey0);')
    prog.append('  std::printf("K interfaceKey1 %llu\\n", (unsigned long long)nop::kNopInterfaceKey1);')
    prog.append('  std::printf("K emptyVariantIndex %d\\n", (int)nop::Variant<int>::kEmptyIndex);')
    prog.append('  std::printf("K emptyHandleReference %lld\\n", (long long)nop::kEmptyHandleReference);')
    # executed tables: Match() of the scalar and container encodings on all 256 prefix bytes, and the
    # class / size the integer encoders choose at every class boundary
    kinds = [('u8', 'std::uint8_t'), ('u16', 'std::uint16_t'), ('u32', 'std::uint32_t'), ('u64', 'std::uint64_t'),
             ('i8', 'std::int8_t'), ('i16', 'std::int16_t'), ('i32', 'std::int32_t'), ('i64', 'std::int64_t')]
    others = [('bool', 'bool'), ('f32', 'float'), ('f64', 'double'), ('string', 'std::string'),
              ('vector_u8', 'std::vector<std::uint8_t>'), ('vector_string', 'std::vector<std::string>'),
              ('array_i16_2', 'std::array<std::int16_t, 2>'), ('array_string_2', 'std::array<std::string, 2>'),
              ('map', 'std::map<std::uint8_t, std::string>'), ('tuple', 'std::tuple<std::uint8_t, std::string>'),
              ('pair', 'std::pair<std::uint8_t, std::string>'), ('optional_u16', 'nop::Optional<std::uint16_t>'),
              ('optional_string', 'nop::Optional<std::string>'), ('variant', 'nop::Variant<int, std::string>')]
    for (k, ct) in kinds + others:
        prog.append('  { std::printf("MT %s "); for (int b = 0; b < 256; b++) std::printf("%%d", nop::Encoding<%s>::Match(static_cast<nop::EncodingByte>(b)) ? 1 : 0); std::printf("\\n"); }' % (k, ct))
    points = [-(2 ** 63), -(2 ** 63) + 1, -(2 ** 31) - 1, -(2 ** 31), -(2 ** 31) + 1, -32769, -32768, -32767, -129, -128, -127, -65, -64, -63, -1,
              0, 1, 63, 64, 127, 128, 129, 255, 256, 257, 32767, 32768, 65535, 65536, 65537, 2 ** 31 - 1, 2 ** 31, 2 ** 32 - 1, 2 ** 32,
              2 ** 32 + 1, 2 ** 63 - 1, 2 ** 63, 2 ** 64 - 1]
    bits = dict(u8=8, u16=16, u32=32, u64=64, i8=8, i16=16, i32=32, i64=64)
    for (k, ct) in kinds:
        lo, hi = (-(2 ** (bits[k] - 1)), 2 ** (bits[k] - 1) - 1) if k[0] == 'i' else (0, 2 ** bits[k] - 1)
        for v in points:
            if lo <= v <= hi:
                lit = ('(-%dLL - 1)' % (-(v + 1))) if v < 0 else ('%dULL' % v)
                prog.append('  { %s x = static_cast<%s>(%s); std::printf("PP %s %d %%u %%zu\\n", static_cast<unsigned>(nop::Encoding<%s>::Prefix(x)), nop::Encoding<%s>::Size(x)); }'
                            % (ct, ct, lit, k, v, ct, ct))
    prog.append('  return 0; }')
    os.makedirs(os.path.join(nv.BUILD, 'extract'), exist_ok=True)
    src = os.path.join(nv.BUILD, 'extract', 'extract.cpp')
    exe = os.path.join(nv.BUILD, 'extract', 'extract')
    with nv.Lock('extract'):
        key = nv.sha(nv.repo_headers() + [os.path.join(nv.REPO, 'docs', 'format.md')], extra='\n'.join(prog))
        out_path = os.path.join(nv.LEAN, 'NopModel', 'Generated.lean')
        stamp = os.path.join(nv.BUILD, 'extract', 'stamp')
        if os.path.exists(stamp) and open(stamp).read() == key and os.path.exists(out_path):
            return out_path
        with open(src, 'w') as f:
            f.write('\n'.join(prog) + '\n')
        p = subprocess.run(['g++', '-std=c++14', '-I' + inc, src, '-o', exe], stdout=subprocess.PIPE, stderr=subprocess.STDOUT, text=True)
        if p.returncode != 0:
            raise nv.BuildError('constant extractor does not compile against /repo', p.stdout)
        out = subprocess.run([exe], stdout=subprocess.PIPE, text=True).stdout
        eb, er, bs, ks = [], [], [], {}
        mts, pps = [], []
        for line in out.split('\n'):
            t = line.split(' ', 3)
            if t[0] == 'EB':
                eb.append((t[1], int(t[2])))
            elif t[0] == 'ER':
                er.append((t[1], int(t[2]), t[3]))
            elif t[0] == 'BS':
                bs.append(int(t[2]))
            elif t[0] == 'K':
                ks[t[1]] = int(t[2])
            elif t[0] == 'MT':
                mts.append((t[1], t[2]))
            elif t[0] == 'PP':
                pps.append((t[1], int(t[2]), int(t[3].split(' ')[0]), int(t[3].split(' ')[1])))
        rows = doc_prefix_rows()
        L = ['/- Generated by tools/extract.py from /repo on every run -- do not edit. -/', 'namespace Nop.Generated', '']
        L.append('def encodingBytes : List (String × Nat) := [' + ', '.join('("%s", %d)' % x for x in eb) + ']')
        L.append('def errorStatus : List (String × Nat × String) := [' + ', '.join('("%s", %d, "%s")' % x for x in er) + ']')
        L.append('def baseEncodingSize : List Nat := [' + ', '.join(str(x) for x in bs) + ']')
        L.append('def docPrefixes : List (String × String × Nat × Nat) := [' + ', '.join('("%s", "%s", %d, %d)' % x for x in rows) + ']')
        def lit(v):
            return '(%d)' % v if v < 0 else str(v)
        L.append('def matchTables : List (String × List Bool) := [' + ', '.join(
            '("%s", [%s])' % (n, ', '.join('true' if ch == '1' else 'false' for ch in tb)) for (n, tb) in mts) + ']')
        L.append('def prefixPoints : List (String × Int × Nat × Nat) := [' + ', '.join('("%s", %s, %d, %d)' % (k, lit(v), pf, sz) for (k, v, pf, sz) in pps) + ']')
        for k in sorted(ks):
            L.append('def %s : Int := %d' % (k, ks[k]))
        L += ['', 'end Nop.Generated', '']
        with open(out_path, 'w') as f:
            f.write('\n'.join(L))
        with open(stamp, 'w') as f:
            f.write(key)
        return out_path


if __name__ == '__main__':
    print(generate())
