"""Shared machinery for the libnop verification checks: paths, build caches (Lean library +
driver, C++ harness shards), running harness shards and the model driver, comparing the
two streams.  Everything is derived from this file's location; nothing lives in /tmp."""
import concurrent.futures as cf
import fcntl
import hashlib
import json
import os
import shutil
import subprocess
import sys
import time

HERE = os.path.dirname(os.path.abspath(__file__))
VERIF = os.path.dirname(HERE)
REPO = os.environ.get('NOP_REPO', '/repo')
BUILD = os.path.join(VERIF, 'build')
LEAN = os.path.join(VERIF, 'lean')
HARNESS = os.path.join(VERIF, 'harness')
NSHARD = 16
JOBS = int(os.environ.get('VERIF_JOBS', '16'))

SAN_FLAGS = ['-std=c++17', '-O1', '-g1', '-fsanitize=address,undefined', '-fno-sanitize-recover=all',
             '-fno-omit-frame-pointer']
SAN_ENV = {'ASAN_OPTIONS': 'detect_leaks=1:abort_on_error=0:allocator_may_return_null=1:max_allocation_size_mb=2048',
           'UBSAN_OPTIONS': 'print_stacktrace=1:halt_on_error=1'}


class BuildError(Exception):
    def __init__(self, what, log):
        super().__init__(what)
        self.what = what
        self.log = log


def sha(paths, extra=''):
    h = hashlib.sha256()
    h.update(extra.encode())
    for p in sorted(paths):
        h.update(p.encode())
        try:
            with open(p, 'rb') as f:
                h.update(f.read())
        except OSError:
            h.update(b'<missing>')
    return h.hexdigest()[:20]


def files_under(root, exts=None):
    out = []
    for d, _, fs in os.walk(root):
        if '/.lake' in d or '/.git' in d:
            continue
        for f in fs:
            if exts is None or os.path.splitext(f)[1] in exts:
                out.append(os.path.join(d, f))
    return out


class Lock:
    def __init__(self, name):
        os.makedirs(BUILD, exist_ok=True)
        self.path = os.path.join(BUILD, name + '.lock')

    def __enter__(self):
        self.f = open(self.path, 'w')
        fcntl.flock(self.f, fcntl.LOCK_EX)
        return self

    def __exit__(self, *a):
        fcntl.flock(self.f, fcntl.LOCK_UN)
        self.f.close()


def prune_cache(keep=4):
    root = os.path.join(BUILD, 'cache')
    if not os.path.isdir(root):
        return
    ds = sorted((os.path.join(root, d) for d in os.listdir(root)), key=os.path.getmtime, reverse=True)
    for d in ds[keep:]:
        shutil.rmtree(d, ignore_errors=True)


# ------------------------------------------------------------------------------------------
# Lean
# ------------------------------------------------------------------------------------------

def lean_sources():
    return [p for p in files_under(LEAN, {'.lean', '.toml'})]


def build_lean(targets=('NopModel', 'nopdriver')):
    """lake build (library with all proofs + native driver).  Returns the driver path."""
    with Lock('lean'):
        key = sha(lean_sources())
        stamp = os.path.join(LEAN, '.lake', 'verif-built-' + '-'.join(targets))
        drv = os.path.join(LEAN, '.lake', 'build', 'bin', 'nopdriver')
        if os.path.exists(stamp) and open(stamp).read() == key and os.path.exists(drv):
            return drv
        t0 = time.time()
        p = subprocess.run(['lake', 'build'] + list(targets), cwd=LEAN, stdout=subprocess.PIPE, stderr=subprocess.STDOUT, text=True)
        if p.returncode != 0:
            raise BuildError('lake build failed', p.stdout)
        os.makedirs(os.path.dirname(stamp), exist_ok=True)
        with open(stamp, 'w') as f:
            f.write(key)
        sys.stderr.write('[nv] lake build %.1fs\n' % (time.time() - t0))
        return drv


# ------------------------------------------------------------------------------------------
# C++ harness
# ------------------------------------------------------------------------------------------

def repo_headers():
    return files_under(os.path.join(REPO, 'include'))


def compile_one(cmd, log):
    p = subprocess.run(cmd, stdout=subprocess.PIPE, stderr=subprocess.STDOUT, text=True)
    with open(log, 'w') as f:
        f.write(' '.join(cmd) + '\n' + p.stdout)
    return p.returncode, p.stdout


def build_binaries(name, sources, units, flags=None, extra_inputs=()):
    """Compile `units` = [(binary name, [defines])] from `sources` (first is the TU), cached by the
    hash of /repo/include + harness sources.  Returns {binary name: path}."""
    flags = list(flags if flags is not None else SAN_FLAGS)
    inputs = repo_headers() + files_under(os.path.join(HARNESS, 'support')) + list(sources) + list(extra_inputs)
    key = sha(inputs, extra=' '.join(flags) + name + repr(units))
    out_dir = os.path.join(BUILD, 'cache', name + '-' + key)
    with Lock('build-' + name):
        done = os.path.join(out_dir, 'DONE')
        if os.path.exists(done):
            os.utime(out_dir, None)
            return {u[0]: os.path.join(out_dir, u[0]) for u in units}
        shutil.rmtree(out_dir, ignore_errors=True)
        os.makedirs(out_dir)
        t0 = time.time()
        cmds = []
        for (bin_name, defines) in units:
            cmd = ['g++'] + flags + ['-I' + os.path.join(REPO, 'include'), '-I' + HARNESS] + list(defines) + \
                  [sources[0], '-o', os.path.join(out_dir, bin_name), '-lpthread']
            cmds.append((cmd, os.path.join(out_dir, bin_name + '.log')))
        failed = []
        with cf.ThreadPoolExecutor(max_workers=JOBS) as ex:
            for (cmd, log), (rc, out) in zip(cmds, ex.map(lambda c: compile_one(*c), cmds)):
                if rc != 0:
                    failed.append((cmd, out))
        if failed:
            log = '\n\n'.join(' '.join(c) + '\n' + o for c, o in failed)
            keep = os.path.join(BUILD, 'last-build-failure-%s.log' % name)
            with open(keep, 'w') as f:
                f.write(log)
            shutil.rmtree(out_dir, ignore_errors=True)
            raise BuildError('harness %s does not compile against %s (%d of %d units failed)' % (name, REPO, len(failed), len(cmds)), log)
        with open(done, 'w') as f:
            f.write('ok')
        sys.stderr.write('[nv] built %s (%d units) in %.1fs\n' % (name, len(units), time.time() - t0))
        prune_cache(keep=40)
        return {u[0]: os.path.join(out_dir, u[0]) for u in units}


# the library's own Makefile builds with -O2 and no sanitizer: undefined behaviour the sanitizers do not
# report (type punning under strict aliasing, say) shows up as wrong results only there
REL_FLAGS = ['-std=c++17', '-O2', '-g0']


def build_codec(pool='a', flavor='san'):
    header = os.path.join(HARNESS, 'pools', 'pool_%s.h' % pool)
    if flavor == 'rel':
        units = [('codec_%s_rel_s%d' % (pool, k),
                  ['-DPOOL_HEADER="pools/pool_%s.h"' % pool, '-DPOOL_NS=pool_%s' % pool, '-DNSHARD=%d' % NSHARD, '-DSHARD=%d' % k])
                 for k in range(NSHARD)]
        bins = build_binaries('codec_%s_rel' % pool, [os.path.join(HARNESS, 'codec_main.cpp')], units, flags=REL_FLAGS, extra_inputs=[header])
        return [bins[u[0]] for u in units]
    units = [('codec_%s_s%d' % (pool, k),
              ['-DPOOL_HEADER="pools/pool_%s.h"' % pool, '-DPOOL_NS=pool_%s' % pool, '-DNSHARD=%d' % NSHARD, '-DSHARD=%d' % k])
             for k in range(NSHARD)]
    bins = build_binaries('codec_' + pool, [os.path.join(HARNESS, 'codec_main.cpp')], units, extra_inputs=[header])
    return [bins[u[0]] for u in units]


def build_pair(pool='x'):
    header = os.path.join(HARNESS, 'pools', 'pool_%s.h' % pool)
    units = [('pair_%s_s%d' % (pool, k),
              ['-DPOOL_HEADER="pools/pool_%s.h"' % pool, '-DPOOL_NS=pool_%s' % pool, '-DNSHARD=%d' % NSHARD, '-DSHARD=%d' % k])
             for k in range(NSHARD)]
    bins = build_binaries('pair_' + pool, [os.path.join(HARNESS, 'pair_main.cpp')], units, flags=SAN_FLAGS + ['-ftemplate-depth=8192'],
                          extra_inputs=[header, os.path.join(HARNESS, 'codec_main.cpp')])
    return [bins[u[0]] for u in units]


def build_rpc():
    header = os.path.join(HARNESS, 'pools', 'pool_r.h')
    units = [('rpc', ['-DPOOL_HEADER="pools/pool_r.h"', '-DPOOL_NS=pool_r', '-DNSHARD=1', '-DSHARD=0'])]
    bins = build_binaries('rpc', [os.path.join(HARNESS, 'rpc_main.cpp')], units,
                          extra_inputs=[header, os.path.join(HARNESS, 'codec_main.cpp')])
    return bins['rpc']


def build_thread():
    flags = ['-std=c++17', '-O1', '-g1', '-fsanitize=thread']
    bins = build_binaries('thread', [os.path.join(HARNESS, 'thread_main.cpp')], [('thread', [])], flags=flags)
    return bins['thread']


def build_util():
    units = [('util', [])]
    flags = SAN_FLAGS + ['-fno-sanitize=shift-base']
    bins = build_binaries('util', [os.path.join(HARNESS, 'util_main.cpp')], units, flags=flags)
    return bins['util']


def build_single(name, source, flags=None):
    """one sanitizer-instrumented binary from harness/<source>"""
    bins = build_binaries(name, [os.path.join(HARNESS, source)], [(name, [])], flags=flags)
    return bins[name]


def run_proc(cmd, stdin_data=None, timeout=3600, env_extra=None):
    env = dict(os.environ)
    env.update(SAN_ENV)
    if env_extra:
        env.update(env_extra)
    p = subprocess.run(cmd, input=stdin_data, stdout=subprocess.PIPE, stderr=subprocess.PIPE, text=True, env=env, timeout=timeout)
    return p.returncode, p.stdout, p.stderr


class Stream:
    """Parsed harness output of one shard."""

    def __init__(self):
        self.m = []      # model ops (including T lines)
        self.pairs = []  # (index into m, impl result)
        self.x = []      # direct violations
        self.stats = {}
        self.crash = None  # (returncode, stderr tail, last M line)


def parse_stream(stdout, rc, stderr):
    s = Stream()
    for line in stdout.split('\n'):
        if not line:
            continue
        tag, body = line[0], line[2:]
        if tag == 'M':
            s.m.append(body)
        elif tag == 'I':
            s.pairs.append((len(s.m) - 1, body))
        elif tag == 'X':
            s.x.append(body)
        elif tag == 'S':
            k, v = body.rsplit(' ', 1)
            s.stats[k] = s.stats.get(k, 0) + int(v)
    if rc != 0:
        last = s.m[-1] if s.m else ''
        cur = [l for l in stderr.split('\n') if l.startswith('CURRENT-INPUT: ')]
        if cur:
            last = cur[-1][len('CURRENT-INPUT: '):]
        s.crash = (rc, (stderr[:6000] + '\n...\n' + stderr[-1500:]) if len(stderr) > 7500 else stderr, last)
    return s


def run_shards(bins, args, timeout=3600):
    def one(b):
        try:
            rc, out, err = run_proc([b] + args, timeout=timeout)
        except subprocess.TimeoutExpired:
            return parse_stream('', 124, 'timeout')
        return parse_stream(out, rc, err)
    with cf.ThreadPoolExecutor(max_workers=JOBS) as ex:
        return list(ex.map(one, bins))


def run_sharded(binary, args, nshard, timeout=3600):
    """the same binary `nshard` times, each with --shard i --nshard n"""
    def one(i):
        try:
            rc, out, err = run_proc([binary] + args + ['--shard', str(i), '--nshard', str(nshard)], timeout=timeout)
        except subprocess.TimeoutExpired:
            return parse_stream('', 124, 'timeout')
        return parse_stream(out, rc, err)
    with cf.ThreadPoolExecutor(max_workers=JOBS) as ex:
        return list(ex.map(one, range(nshard)))


def run_driver(driver, mlines):
    data = '\n'.join(mlines) + '\n'
    p = subprocess.run([driver], input=data, stdout=subprocess.PIPE, stderr=subprocess.PIPE, text=True)
    if p.returncode != 0:
        raise BuildError('model driver crashed', p.stderr[-4000:])
    out = p.stdout.split('\n')
    if out and out[-1] == '':
        out.pop()
    return out


def compare(driver, streams):
    """Feed every shard's M lines to the driver; returns (agreements, [disagreement dicts])."""
    def one(s):
        exp = [r for (_, r) in s.pairs]
        got = run_driver(driver, s.m) if s.m else []
        dis = []
        if len(got) != len(exp):
            dis.append({'kind': 'line-count', 'impl_lines': len(exp), 'model_lines': len(got)})
        n = min(len(got), len(exp))
        # the type definition in force for each op
        tdefs = {}
        ti = 0
        for j in range(n):
            mi = s.pairs[j][0]
            while ti <= mi:
                if s.m[ti].startswith('T '):
                    parts = s.m[ti].split(' ', 2)
                    tdefs[parts[1]] = parts[2]
                ti += 1
            if got[j] != exp[j] and not (exp[j] == 'err *' and got[j].startswith('err ')):
                op = s.m[mi]
                toks = op.split(' ')
                tid = toks[2] if toks[0] == 'fault' else (toks[1] if len(toks) > 1 else '')
                dis.append({'kind': 'result', 'op': op, 'type': tdefs.get(tid, '?'), 'impl': exp[j], 'model': got[j]})
        return n - sum(1 for d in dis if d['kind'] == 'result'), dis
    agree = 0
    alldis = []
    with cf.ThreadPoolExecutor(max_workers=JOBS) as ex:
        for a, d in ex.map(one, streams):
            agree += a
            alldis += d
    return agree, alldis


def compare_stream(driver, s):
    """one shard: (agreements, [disagreement dicts])"""
    exp = [r for (_, r) in s.pairs]
    got = run_driver(driver, s.m) if s.m else []
    dis = []
    if len(got) != len(exp):
        dis.append({'kind': 'line-count', 'impl_lines': len(exp), 'model_lines': len(got)})
    n = min(len(got), len(exp))
    tdefs = {}
    ti = 0
    bad = 0
    skipped = 0
    for j in range(n):
        if exp[j] == 'err *' and got[j].startswith('err '):
            continue   # rejected by both; the code is deliberately not compared (more than one defect)
        if got[j] != exp[j]:
            # fault positions: the implementation's k-th call may lie beyond the model's last call when the
            # implementation splits a transfer into more calls than the model does (the property does not fix
            # the chunking; status and no-further-calls are checked on the implementation itself)
            if got[j].startswith('err none') and s.m[s.pairs[j][0]].startswith('fault '):
                skipped += 1
                s.stats['fault_positions_beyond_model_calls'] = s.stats.get('fault_positions_beyond_model_calls', 0) + 1
                continue
            bad += 1
            if len(dis) < 200:
                mi = s.pairs[j][0]
                while ti <= mi:
                    if s.m[ti].startswith('T '):
                        parts = s.m[ti].split(' ', 2)
                        tdefs[parts[1]] = parts[2]
                    ti += 1
                op = s.m[mi]
                toks = op.split(' ')
                tid = toks[2] if toks[0] == 'fault' else (toks[1] if len(toks) > 1 else '')
                dis.append({'kind': 'result', 'op': op[:20000], 'type': tdefs.get(tid, '?'), 'impl': exp[j][:20000], 'model': got[j][:20000]})
    return n - bad - skipped, dis


class Summary:
    """what is kept of one shard's run once its output has been compared and dropped"""
    pass


def pipeline(cmds, driver, timeout=7200):
    """run each command (a harness shard), compare its M/I lines with the driver, keep a summary only:
    the raw output of a thorough run is gigabytes and must not be held for all shards at once"""
    def one(cmd):
        try:
            rc, out, err = run_proc(cmd, timeout=timeout)
        except subprocess.TimeoutExpired:
            rc, out, err = 124, '', 'timeout'
        s = parse_stream(out, rc, err)
        del out
        u = Summary()
        u.x = s.x[:500]
        u.x_total = len(s.x)
        u.stats = s.stats
        u.crash = s.crash
        u.n_pairs = len(s.pairs)
        u.distinct = len({hash(s.m[mi]) for (mi, _) in s.pairs})
        u.distinct_nontrivial = len({hash(s.m[mi]) for (mi, r) in s.pairs if not r.startswith('err UnexpectedEncodingType')})
        u.samples = [{'op': s.m[mi][:300], 'impl': r[:300]} for (mi, r) in (s.pairs[:2] + s.pairs[-1:])]
        u.agree, u.dis = (0, [])
        u.compared = False
        if driver is not None:
            u.agree, u.dis = compare_stream(driver, s)
            u.compared = True
        return u
    with cf.ThreadPoolExecutor(max_workers=JOBS) as ex:
        return list(ex.map(one, cmds))


def merge_stats(streams):
    st = {}
    for s in streams:
        for k, v in s.stats.items():
            st[k] = st.get(k, 0) + v
    return st
