"""Per-property check definitions and the common run / classify / evidence logic."""
import json
import os
import re
import subprocess
import sys
import time

import nv

ALLOWED_AXIOMS = {'propext', 'Classical.choice', 'Quot.sound'}
FORBIDDEN = re.compile(r'\b(sorry|admit|native_decide|bv_decide|implemented_by|unsafe )|^axiom |maxHeartbeats 0', re.M)

TRUSTED_BASE = [
    'Lean 4.33.0 kernel; axioms allowed in property theorems: propext, Classical.choice, Quot.sound (audited by #print axioms on every run)',
    'no sorry/admit/native_decide/bv_decide/own axioms (grep on every run)',
    'hand-written Lean model of libnop (lean/NopModel): modelled, not verified: all C++ (overload resolution, object lifetime, memory safety, std containers/streams, read/write syscalls)',
    'correspondence check: generator gen/pool.py (C++ type <-> Ty term map), harness/*.cpp and its Val dump, tools/nv.py comparison, g++ 12 / libstdc++, ASan/UBSan',
    'constant extractor tools/extract.py (prefix table, ErrorStatus, keys regenerated from /repo into NopModel/Generated.lean)',
]

# engine 'codec': modes of harness/codec_main.cpp; `witness` = a model/implementation
# disagreement is by itself a failing input of the property (the model is the property's
# reference encoder/decoder), otherwise only X lines are failing inputs.
PROPS = {
    # also_rel: the same operations once more in a build with the library's own flags (-O2, no sanitizer)
    'C01': dict(engine='codec', modes=['rt'], witness=False, values=(16, 300), also_rel=True),
    'C02': dict(engine='codec', modes=['hostile'], witness=False, values=(6, 30)),
    'C03': dict(engine='codec', modes=['bytes'], witness=True, values=(60, 2000), also_rel=True),
    'C04': dict(engine='codec', modes=['lang'], witness=True, values=(6, 14), also_rel=True),
    # second stage: cuts of one table version's encoding read as another version (entries the reader skips)
    'C05': dict(witness=False, stages=[
        dict(engine='codec', modes=['cut'], values=(8, 60), also_rel=True),
        dict(engine='pair', pool='x', modes=['xcut'], values=(3, 12))]),
    # second stage: types with handles (Size over-estimates, padding inside table entries, nested tables)
    'C06': dict(witness=False, stages=[
        dict(engine='codec', modes=['cap'], values=(10, 150)),
        dict(engine='codec', pool='h', modes=['cap'], values=(6, 40))]),
    'C10': dict(witness=False, stages=[
        dict(engine='codec', modes=['fault'], values=(10, 150)),
        dict(engine='single', name='rpc', builder='build_rpc', runs=[['--mode', 'rpcfault']], shards=2)]),
    'C11': dict(engine='codec', modes=['prior'], witness=False, values=(8, 40), also_rel=True),
    # engine 'util': harness/util_main.cpp (single binary); the model is the contract itself
    'C16': dict(engine='util', modes=['rseq', 'wseq'], witness=True),
    'C17': dict(engine='util', modes=['rseq', 'wseq'], witness=True),
    'C18': dict(engine='util', modes=['sip'], witness=True),
    'C20': dict(engine='util', modes=['endian'], witness=True),
    # engine 'single': one harness binary run as 16 run-time shards; failing inputs are the
    # harness's direct property checks (X lines), a bare disagreement is a broken correspondence
    'C12': dict(engine='single', name='life', source='life_main.cpp', runs=[['--mode', 'life', '--which', 'variant']], witness=False),
    # engine 'pair': harness/pair_main.cpp over a pool with (writer type, reader type) pairs; the model
    # decoder's result on a cross-version read is, by C07_cross_version, what the property requires
    'C07': dict(engine='pair', pool='x', modes=['xver'], witness=True, values=(5, 40)),
    # the model decoder's verdict on a (mutated) table is, by C08_hash_mismatch / C08_duplicate / C08_surplus_skipped /
    # C08_any_order / C08_smaller_size and C04_sound / C04_complete, what the property requires
    'C08': dict(engine='pair', pool='x', modes=['frame'], witness=False, witness_ops=['dec'], values=(8, 80)),
    # the model's relation is the trait (fung lines: any disagreement is a wrong trait value on that pair)
    'C09': dict(engine='pair', pool='f', modes=['fung'], witness=False, witness_ops=['fung', 'dec'], values=(4, 40)),
    # the model dispatcher's result on a request is, by C14_call / C14_unbound / C14_bad_arguments, the required one
    'C14': dict(engine='single', name='rpc', builder='build_rpc', runs=[['--mode', 'rpc']], witness=True),
    # C19: static-storage inventory (the model's product-state assumption) + concurrent runs under ThreadSanitizer
    'C19': dict(witness=False, witness_ops=['tl'], stages=[
        dict(engine='statics'),
        dict(engine='single', name='thread', builder='build_thread', runs=[['--mode', 'threads']], shards=8)]),
    'C15': dict(witness=False, stages=[
        dict(engine='codec', pool='h', modes=['handles'], values=(6, 60), witness_ops=['enc']),
        dict(engine='single', name='life', source='life_main.cpp', runs=[['--mode', 'uh']])]),
    'C13': dict(engine='single', name='life', source='life_main.cpp',
                runs=[['--mode', 'life', '--which', 'optional'], ['--mode', 'cmp']], witness=False, witness_ops=['cmp']),
}


def load_obligations():
    p = os.path.join(nv.LEAN, 'obligations.json')
    if os.path.exists(p):
        return json.load(open(p))
    return {}


def load_known():
    p = os.path.join(nv.VERIF, 'known_findings.json')
    if os.path.exists(p):
        return json.load(open(p))
    return []


class Run:
    def __init__(self, pid, tier, seed):
        self.pid = pid
        self.tier = tier
        self.seed = seed
        self.cfg = PROPS[pid]
        self.obligations = []        # (name, discharged, detail)
        self.violations = []         # dicts with 'what', 'input' (or None)
        self.known_hits = []
        self.cov = {}
        self.samples = []
        self.notes = []
        self.driver = None
        self.lean_ok = True

    # ---- stage 1: proof obligations ----------------------------------------------------
    def lean_stage(self):
        obl = load_obligations()
        names = list(obl.get(self.pid, []))
        gen_names = list(obl.get('_generated', {}).get(self.pid, []))
        try:
            import extract
            extract.generate()
        except nv.BuildError as e:
            self.lean_ok = False
            self.obligations = [(n, False, 'constant extractor failed') for n in names] or [('Generated', False, e.what)]
            self.violations.append(dict(what='constant extractor does not build/run against /repo: ' + e.what, input=None, log=e.log[-4000:]))
            return
        except ImportError:
            pass
        # forbidden constructs
        bad = []
        for p in nv.files_under(nv.LEAN, {'.lean'}):
            src = open(p).read()
            src_nc = re.sub(r'/-.*?-/', '', src, flags=re.S)
            src_nc = re.sub(r'--.*', '', src_nc)
            for m in FORBIDDEN.finditer(src_nc):
                bad.append('%s: %s' % (os.path.relpath(p, nv.VERIF), m.group(0).strip()))
        if bad:
            self.lean_ok = False
            self.violations.append(dict(what='forbidden construct in Lean sources: ' + '; '.join(bad[:5]), input=None))
        try:
            self.driver = nv.build_lean()
        except nv.BuildError as e:
            self.lean_ok = False
            self.obligations = [(n, False, 'lake build failed') for n in names]
            self.violations.append(dict(what='lake build failed: a proof obligation or the model no longer checks', input=None, log=e.log[-6000:]))
            # a stale driver from an earlier build may still exist; do not use it
            return
        gen_import = ''
        if gen_names:
            # constants regenerated from /repo: a separate target, so that a changed enumerator,
            # table or key breaks exactly the properties that depend on it
            p = subprocess.run(['lake', 'build', 'NopModel.Properties.Generated'], cwd=nv.LEAN, stdout=subprocess.PIPE,
                               stderr=subprocess.STDOUT, text=True)
            if p.returncode != 0:
                for n in gen_names:
                    self.obligations.append((n, False, 'NopModel.Properties.Generated does not build'))
                self.violations.append(dict(what='constants extracted from /repo no longer match the model (NopModel/Properties/Generated.lean): '
                                            + ' '.join(l for l in p.stdout.split('\n') if 'error' in l)[:600], input=None, log=p.stdout[-4000:]))
            else:
                names = names + gen_names
                gen_import = 'import NopModel.Properties.Generated\n'
        if not names:
            return
        audit = 'import NopModel\n' + gen_import + ''.join('#print axioms %s\n' % n for n in names)
        ap = os.path.join(nv.BUILD, 'audit_%s.lean' % self.pid)
        with open(ap, 'w') as f:
            f.write(audit)
        p = subprocess.run(['lake', 'env', 'lean', ap], cwd=nv.LEAN, stdout=subprocess.PIPE, stderr=subprocess.STDOUT, text=True)
        out = p.stdout
        for n in names:
            m = re.search(r"'%s' depends on axioms: \[([^\]]*)\]" % re.escape(n), out)
            m0 = re.search(r"'%s' does not depend on any axioms" % re.escape(n), out)
            if m0:
                self.obligations.append((n, True, 'no axioms'))
            elif m:
                axs = {a.strip() for a in m.group(1).replace('\n', ' ').split(',') if a.strip()}
                extra = axs - ALLOWED_AXIOMS
                self.obligations.append((n, not extra, 'axioms: ' + ', '.join(sorted(axs))))
                if extra:
                    self.violations.append(dict(what='theorem %s depends on non-allowed axioms %s' % (n, sorted(extra)), input=None))
            else:
                self.obligations.append((n, False, 'theorem not found'))
                self.violations.append(dict(what='theorem %s is missing from the Lean library' % n, input=None, log=out[-2000:]))
        if self.tier == 'thorough':
            # independent re-check of the compiled property module by the toolchain's leanchecker
            mod = 'NopModel.Properties.%s' % self.pid
            pc = subprocess.run(['lake', 'env', 'leanchecker', mod], cwd=nv.LEAN, stdout=subprocess.PIPE, stderr=subprocess.STDOUT, text=True)
            self.cov['leanchecker'] = '%s: %s' % (mod, 'accepted' if pc.returncode == 0 else 'REJECTED')
            if pc.returncode != 0:
                self.violations.append(dict(what='leanchecker rejects the compiled module %s' % mod, input=None, log=pc.stdout[-3000:]))

    # ---- stage 2: correspondence ---------------------------------------------------------
    def corr_stage(self):
        top = self.cfg
        for st in top.get('stages', [top]):
            self.cfg = dict(top, **st)
            eng = self.cfg['engine']
            if eng == 'codec':
                self.codec_stage()
            elif eng == 'pair':
                self.codec_stage(pair=True)
            elif eng == 'util':
                self.util_stage()
            elif eng == 'single':
                self.single_stage()
            elif eng == 'statics':
                self.statics_stage()
            else:
                raise nv.BuildError('unknown engine ' + eng, '')
        self.cfg = top

    def account(self, sums, rule, nontrivial=False):
        self.cov['evaluations'] = self.cov.get('evaluations', 0) + sum(u.n_pairs for u in sums)
        self.cov['distinct_nontrivial'] = self.cov.get('distinct_nontrivial', 0) + sum(
            (u.distinct_nontrivial if nontrivial else u.distinct) for u in sums)
        self.cov['rule'] = rule
        for u in sums:
            for smp in u.samples:
                if len(self.samples) < 6:
                    self.samples.append(smp)

    def util_stage(self):
        binary = nv.build_util()
        for mode in self.cfg['modes']:
            args = ['--mode', mode, '--seed', str(self.seed)]
            if self.tier == 'thorough':
                args.append('--thorough')
            sums = nv.pipeline([[binary] + args], self.driver)
            self.absorb(sums, 'util/' + mode)
            self.account(sums, 'each evaluation is one call sequence / input executed on the real library and on the Lean model and '
                               'compared; distinct = distinct operation lines (every sequence contains at least one primitive call)')

    def statics_stage(self):
        import statics
        inv, unexpected, missing = statics.compare()
        self.cov['static_storage_inventory'] = inv
        self.cov['evaluations'] = self.cov.get('evaluations', 0) + 1
        self.cov['distinct_nontrivial'] = self.cov.get('distinct_nontrivial', 0) + 1
        for d in unexpected:
            self.violations.append(dict(what='static-storage inventory: mutable static/thread storage not in the model: %s:%d `%s`' % (d['file'], d['line'], d['decl']),
                                        input={'declaration': d, 'meaning': 'state shared by every thread (or by every object) that the product-state model of C19 does not have'}))
        for d in missing:
            self.violations.append(dict(what='static-storage inventory: the thread_local storage the ThreadLocal model is built on is gone: %s `%s`' % (d['file'], d['decl']),
                                        input=None, detail=d))

    def single_stage(self):
        if self.cfg.get('builder'):
            binary = getattr(nv, self.cfg['builder'])()
        else:
            binary = nv.build_single(self.cfg['name'], self.cfg['source'], flags=self.cfg.get('flags'))
        for run in self.cfg['runs']:
            args = list(run) + ['--seed', str(self.seed)]
            if self.tier == 'thorough':
                args.append('--thorough')
            n = self.cfg.get('shards', nv.NSHARD)
            sums = nv.pipeline([[binary] + args + ['--shard', str(i), '--nshard', str(n)] for i in range(n)], self.driver)
            self.absorb(sums, self.cfg['name'] + '/' + run[1])
            self.account(sums, 'each evaluation is one operation history / input executed on the real library and on the Lean model and '
                               'compared (per-operation observations, final state of every object, event log); distinct = distinct history lines')

    def codec_stage(self, pair=False, flavor=None):
        if flavor is None:
            flavor = os.environ.get('NOPV_FLAVOR') or self.cfg.get('flavor', 'san')
            if self.cfg.get('also_rel') and flavor == 'san':
                self.codec_stage(pair, 'san')
                self.codec_stage(pair, 'rel')
                return
        bins = nv.build_pair(self.cfg.get('pool', 'x')) if pair else nv.build_codec(self.cfg.get('pool', 'a'), flavor)
        deep = self.tier == 'thorough' and flavor == 'san'
        nvals = self.cfg['values'][1 if deep else 0]
        for mode in self.cfg['modes']:
            args = ['--mode', mode, '--seed', str(self.seed), '--values', str(nvals)]
            if deep:
                args.append('--thorough')
            sums = nv.pipeline([[b] + args for b in bins], self.driver)
            self.absorb(sums, ('pair/' if pair else 'codec/') + mode + ('' if flavor == 'san' else '@' + flavor))
            self.account(sums, 'each evaluation is one operation executed on the real library and on the Lean model and compared; '
                               'distinct = distinct operation lines; non-trivial = the implementation got past the first prefix byte '
                               '(anything but UnexpectedEncodingType at the top level)', nontrivial=True)

    def absorb(self, sums, label):
        """Crashes, direct violations and model/implementation disagreements of one harness run (shard summaries)."""
        for u in sums:
            if u.crash:
                rc, err, last = u.crash
                self.violations.append(dict(what='%s: harness aborted (sanitizer report or crash, exit %d)' % (label, rc),
                                            input={'last_op': last[:2000]}, log=err))
        for u in sums:
            for x in u.x:
                tag, rest = x.split(' ', 1)
                if self.pid in tag.split('/'):
                    self.violations.append(dict(what=label + ': ' + rest.split(' ', 1)[0], input={'observation': rest[:4000]}))
                else:
                    self.cov['other_property_observations'] = self.cov.get('other_property_observations', 0) + 1
        for u in sums:
            for k, v in u.stats.items():
                self.cov.setdefault('distribution', {})[k] = self.cov.get('distribution', {}).get(k, 0) + v
        if self.driver is None:
            self.notes.append('model driver unavailable: correspondence not evaluated, implementation-side property checks only')
            return
        self.cov['traces_validated_against_impl'] = self.cov.get('traces_validated_against_impl', 0) + sum(u.agree for u in sums)
        dis = [d for u in sums for d in u.dis]
        self.cov['disagreements'] = self.cov.get('disagreements', 0) + len(dis)
        for d in dis[:200]:
            if d['kind'] == 'result' and (self.cfg.get('witness') or d['op'].split(' ', 1)[0] in self.cfg.get('witness_ops', [])):
                self.violations.append(dict(what=label + ': implementation differs from the reference model', input=d))
            else:
                self.violations.append(dict(what=label + ': correspondence broken (model and implementation disagree)', input=None, detail=d))

    # ---- known findings ----------------------------------------------------------------------
    def apply_known(self):
        known = [k for k in load_known() if k.get('property') == self.pid and k.get('status') == 'known']
        keep = []
        for v in self.violations:
            hit = None
            blob = json.dumps(v)
            for k in known:
                if all(re.search(pat, blob) for pat in k['match']):
                    hit = k
                    break
            if hit:
                self.known_hits.append((hit, v))
            else:
                keep.append(v)
        self.violations = keep

    def execute(self):
        self.lean_stage()
        self.corr_stage()

    def broken_machinery(self, e):
        self.violations.append(dict(what=e.what, input=None, log=e.log[-8000:]))

    # ---- verdict + evidence -----------------------------------------------------------------
    def finish(self, wall):
        self.apply_known()
        seen = set()
        for (k, v) in self.known_hits:
            if k['key'] not in seen:
                seen.add(k['key'])
                print('KNOWN-FINDING: property=%s %s (reproduced in this run)' % (self.pid, k['what']))
        # listed findings whose inputs the generators deliberately leave out are still announced
        for k in load_known():
            if k.get('property') == self.pid and k.get('status') == 'known' and k['key'] not in seen:
                seen.add(k['key'])
                print('KNOWN-FINDING: property=%s %s (listed; its inputs are excluded from generation: %s)' % (self.pid, k['what'], k.get('note', '')))
        rc = 0
        if self.violations:
            rc = 1
            os.makedirs(os.path.join(nv.VERIF, 'replays'), exist_ok=True)
            with_input = [v for v in self.violations if v.get('input')]
            path = os.path.join(nv.VERIF, 'replays', '%s-%s-seed%d-%d.json' % (self.pid, self.tier, self.seed, int(time.time())))
            rec = dict(property=self.pid, tier=self.tier, seed=self.seed,
                       failing_inputs=with_input[:50],
                       broken=[v for v in self.violations if not v.get('input')][:50],
                       obligations=[dict(name=n, discharged=ok, detail=d) for (n, ok, d) in self.obligations],
                       how_to_replay='python3 tools/check.py %s --replay %s' % (self.pid, path))
            with open(path, 'w') as f:
                json.dump(rec, f, indent=1)
            if with_input:
                print('VIOLATION property=%s replay=%s' % (self.pid, path))
            else:
                print('VIOLATION property=%s replay=%s no-failing-input-found' % (self.pid, path))
            for v in self.violations[:8]:
                sys.stderr.write('  - %s\n' % v['what'][:400])
                if v.get('input'):
                    sys.stderr.write('      %s\n' % json.dumps(v['input'])[:600])
                elif v.get('detail'):
                    sys.stderr.write('      %s\n' % json.dumps(v['detail'])[:600])
        ob = len(self.obligations)
        dis = sum(1 for (_, ok, _) in self.obligations if ok)
        cov = dict(self.cov)
        cov.setdefault('evaluations', 0)
        cov.setdefault('distinct_nontrivial', 0)
        cov['obligations'] = ob
        cov['discharged'] = dis
        cov['checker_cmd'] = 'cd lean && lake build NopModel && lake env lean ../build/audit_%s.lean  (#print axioms on: %s)' % (
            self.pid, ', '.join(n for (n, _, _) in self.obligations))
        cov['trusted_base'] = TRUSTED_BASE
        cov['theorems'] = [dict(name=n, discharged=ok, detail=d) for (n, ok, d) in self.obligations]
        cov['samples'] = self.samples or [{'note': 'no operation executed'}]
        cov['known_findings_hit'] = sorted({k['key'] for (k, _) in self.known_hits})
        if self.notes:
            cov['notes'] = self.notes
        ev = dict(property_id=self.pid, tier=self.tier, seed=self.seed, level='proof', coverage=cov,
                  assumptions=['theorems are about the Lean model; the tie to the C++ is the behavioural correspondence on the sampled operations counted above'],
                  wall_s=round(wall, 2), violations=len(self.violations))
        os.makedirs(os.path.join(nv.VERIF, 'evidence'), exist_ok=True)
        with open(os.path.join(nv.VERIF, 'evidence', self.pid + '.json'), 'w') as f:
            json.dump(ev, f, indent=1)
        print('%s %s tier=%s seed=%d: %d/%d obligations, %d ops compared, %d violations, %.1fs' % (
            self.pid, 'FAIL' if rc else 'ok', self.tier, self.seed, dis, ob, cov.get('traces_validated_against_impl', 0), len(self.violations), wall))
        return rc


def replay(pid, path):
    rec = json.load(open(path))
    print(json.dumps(rec, indent=1)[:6000])
    print('re-running the check at the recorded seed/tier...')
    os.environ['VERIF_SEED'] = str(rec.get('seed', 1))
    r = Run(pid, rec.get('tier', 'quick'), rec.get('seed', 1))
    try:
        r.execute()
    except nv.BuildError as e:
        r.broken_machinery(e)
    return r.finish(0.0)
