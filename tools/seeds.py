#!/usr/bin/env python3
"""Seeded-change rehearsal.

  seeds.py harvest <worktree dir> <Cxx>     copy m1/, m2/ deliverables of a sub-agent into seeded/
  seeds.py confirm <seed id>...             in a scratch worktree: tests pass with the patch, demo fails
                                            with it and passes without it (records into meta.json)
  seeds.py detect <seed id>... [--props C01,C05] [--tier quick]
                                            apply to /repo, run the checks, undo; record which catch it
"""
import json
import os
import shutil
import subprocess
import sys

HERE = os.path.dirname(os.path.abspath(__file__))
VERIF = os.path.dirname(HERE)
SEEDED = os.path.join(VERIF, 'seeded')
REPO = '/repo'


def sh(cmd, cwd=None, timeout=3600):
    p = subprocess.run(cmd, shell=True, cwd=cwd, stdout=subprocess.PIPE, stderr=subprocess.STDOUT, text=True, timeout=timeout)
    return p.returncode, p.stdout


def harvest(wt, pid):
    for k in sorted(x for x in os.listdir(wt) if x.startswith('m') and x[1:].isdigit()):
        src = os.path.join(wt, k)
        if not os.path.isdir(src):
            continue
        dst = os.path.join(SEEDED, '%s-%s' % (pid, k))
        os.makedirs(dst, exist_ok=True)
        for f in os.listdir(src):
            if f in ('patch.diff', 'demo.cpp', 'demo.sh', 'meta.json') or f.endswith(('.h', '.hpp')):
                shutil.copy(os.path.join(src, f), os.path.join(dst, f))
        print('harvested', dst)


def confirm(sid):
    d = os.path.join(SEEDED, sid)
    wt = '/tmp/seedconfirm-' + sid
    sh('git -C %s worktree remove --force %s' % (REPO, wt))
    rc, out = sh('git -C %s worktree add -q %s HEAD' % (REPO, wt))
    res = {}
    try:
        mk = sid.split('-')[1]
        os.makedirs(os.path.join(wt, mk), exist_ok=True)
        for f in os.listdir(d):
            shutil.copy(os.path.join(d, f), os.path.join(wt, mk, f))
        rc, out = sh('sh %s/demo.sh' % mk, cwd=wt, timeout=600)
        res['demo_without_patch'] = 'pass' if rc == 0 else 'FAIL(rc=%d)' % rc
        rc, out = sh('git apply %s/patch.diff' % mk, cwd=wt)
        res['patch_applies'] = rc == 0
        rc, out = sh('make -j8 2>&1 | tail -3 && out/test 2>&1 | tail -3', cwd=wt, timeout=1800)
        res['tests_with_patch'] = 'pass' if ('PASSED  ] 315 tests' in out and 'FAILED' not in out) else 'FAIL: ' + out[-300:]
        rc, out = sh('sh %s/demo.sh' % mk, cwd=wt, timeout=600)
        res['demo_with_patch'] = 'fails' if rc != 0 or 'FAIL' in out else 'PASSES(unexpected)'
        res['confirmed'] = (res['demo_without_patch'] == 'pass' and res['patch_applies'] and res['tests_with_patch'] == 'pass'
                            and res['demo_with_patch'] == 'fails')
    finally:
        sh('git -C %s worktree remove --force %s' % (REPO, wt))
    mp = os.path.join(d, 'meta.json')
    meta = json.load(open(mp)) if os.path.exists(mp) else {}
    meta['confirmation'] = res
    json.dump(meta, open(mp, 'w'), indent=1)
    print(sid, json.dumps(res))
    return res


def detect(sid, props, tier):
    d = os.path.join(SEEDED, sid)
    rc, out = sh('git -C %s status --porcelain' % REPO)
    if out.strip():
        print('refusing: /repo working tree is not clean'); return
    rc, out = sh('git -C %s apply %s/patch.diff' % (REPO, d))
    if rc != 0:
        print('patch does not apply', out); return
    results = {}
    try:
        for p in props:
            rc, out = sh('python3 %s/check.py %s --tier %s' % (HERE, p, tier), cwd=VERIF, timeout=7200)
            vio = [l for l in out.split('\n') if l.startswith('VIOLATION')]
            results[p] = dict(exit=rc, violation=vio[0] if vio else None, tail=out.strip().split('\n')[-1][:300],
                              first=[l.strip()[:400] for l in out.split('\n') if l.strip().startswith('- ')][:2])
            print(sid, p, 'exit', rc, vio[0][:160] if vio else '')
    finally:
        sh('git -C %s checkout -- .' % REPO)
    mp = os.path.join(d, 'meta.json')
    meta = json.load(open(mp)) if os.path.exists(mp) else {}
    meta.setdefault('detection', {}).update(results)
    json.dump(meta, open(mp, 'w'), indent=1)


def main():
    a = sys.argv[1:]
    if a[0] == 'harvest':
        harvest(a[1], a[2])
    elif a[0] == 'confirm':
        for sid in a[1:]:
            confirm(sid)
    elif a[0] == 'detect':
        props = None; tier = 'quick'; ids = []
        i = 1
        while i < len(a):
            if a[i] == '--props': props = a[i + 1].split(','); i += 2
            elif a[i] == '--tier': tier = a[i + 1]; i += 2
            else: ids.append(a[i]); i += 1
        for sid in ids:
            detect(sid, props or [sid.split('-')[0]], tier)


if __name__ == '__main__':
    main()
