#!/usr/bin/env python3
"""Seeded-change rehearsal.

  seeds.py harvest <worktree dir> <Cxx>     copy m1/, m2/ deliverables of a sub-agent into seeded/
  seeds.py confirm <seed id>...             in a scratch worktree: tests pass with the patch, demo fails
                                            with it and passes without it (records into meta.json)
  seeds.py detect <seed id>... [--props C01,C05] [--tier quick]
                                            apply to /repo, run the checks, undo; record which catch it
  seeds.py harvest-benign <worktree dir> <Cxx> / confirm-benign <id>... / quiet <id>...
                                            the same for harmless changes (benign/): the checks of every
                                            property exercising the touched files must stay quiet
"""
import json
import os
import shutil
import subprocess
import sys

HERE = os.path.dirname(os.path.abspath(__file__))
VERIF = os.path.dirname(HERE)
SEEDED = os.path.join(VERIF, 'seeded')
REPO = '/repo'


def sh(cmd, cwd=None, timeout=3600):
    p = subprocess.run(cmd, shell=True, cwd=cwd, stdout=subprocess.PIPE, stderr=subprocess.STDOUT, text=True, timeout=timeout)
    return p.returncode, p.stdout


def harvest(wt, pid):
    for k in sorted(x for x in os.listdir(wt) if x.startswith('m') and x[1:].isdigit()):
        src = os.path.join(wt, k)
        if not os.path.isdir(src):
            continue
        dst = os.path.join(SEEDED, '%s-%s' % (pid, k))
        os.makedirs(dst, exist_ok=True)
        for f in os.listdir(src):
            if f in ('patch.diff', 'demo.cpp', 'demo.sh', 'meta.json') or f.endswith(('.h', '.hpp', '.inc')):
                shutil.copy(os.path.join(src, f), os.path.join(dst, f))
        print('harvested', dst)


def confirm(sid):
    d = os.path.join(SEEDED, sid)
    wt = '/tmp/seedconfirm-' + sid
    sh('git -C %s worktree remove --force %s' % (REPO, wt))
    rc, out = sh('git -C %s worktree add -q %s HEAD' % (REPO, wt))
    res = {}
    try:
        mk = sid.split('-')[1]
        os.makedirs(os.path.join(wt, mk), exist_ok=True)
        for f in os.listdir(d):
            shutil.copy(os.path.join(d, f), os.path.join(wt, mk, f))
        rc, out = sh('sh %s/demo.sh' % mk, cwd=wt, timeout=600)
        res['demo_without_patch'] = 'pass' if rc == 0 else 'FAIL(rc=%d)' % rc
        rc, out = sh('git apply %s/patch.diff' % mk, cwd=wt)
        res['patch_applies'] = rc == 0
        rc, out = sh('make -j8 2>&1 | tail -3 && out/test 2>&1 | tail -3', cwd=wt, timeout=1800)
        res['tests_with_patch'] = 'pass' if ('PASSED  ] 315 tests' in out and 'FAILED' not in out) else 'FAIL: ' + out[-300:]
        rc, out = sh('sh %s/demo.sh' % mk, cwd=wt, timeout=600)
        res['demo_with_patch'] = 'fails' if rc != 0 or 'FAIL' in out else 'PASSES(unexpected)'
        res['confirmed'] = (res['demo_without_patch'] == 'pass' and res['patch_applies'] and res['tests_with_patch'] == 'pass'
                            and res['demo_with_patch'] == 'fails')
    finally:
        sh('git -C %s worktree remove --force %s' % (REPO, wt))
    mp = os.path.join(d, 'meta.json')
    meta = json.load(open(mp)) if os.path.exists(mp) else {}
    meta['confirmation'] = res
    json.dump(meta, open(mp, 'w'), indent=1)
    print(sid, json.dumps(res))
    return res


def detect(sid, props, tier):
    d = os.path.join(SEEDED, sid)
    rc, out = sh('git -C %s status --porcelain' % REPO)
    if out.strip():
        print('refusing: /repo working tree is not clean'); return
    rc, out = sh('git -C %s apply %s/patch.diff' % (REPO, d))
    if rc != 0:
        print('patch does not apply', out); return
    results = {}
    try:
        for p in props:
            rc, out = sh('python3 %s/check.py %s --tier %s' % (HERE, p, tier), cwd=VERIF, timeout=7200)
            vio = [l for l in out.split('\n') if l.startswith('VIOLATION')]
            results[p] = dict(exit=rc, violation=vio[0] if vio else None, tail=out.strip().split('\n')[-1][:300],
                              first=[l.strip()[:400] for l in out.split('\n') if l.strip().startswith('- ')][:2])
            print(sid, p, 'exit', rc, vio[0][:160] if vio else '')
    finally:
        sh('git -C %s checkout -- .' % REPO)
        # the runs above rewrote evidence/<P>.json from a *changed* tree: put the committed files back
        sh('git -C %s checkout -- %s' % (VERIF, ' '.join('evidence/%s.json' % p for p in props)))
    mp = os.path.join(d, 'meta.json')
    meta = json.load(open(mp)) if os.path.exists(mp) else {}
    meta.setdefault('detection', {}).update(results)
    json.dump(meta, open(mp, 'w'), indent=1)


BENIGN = os.path.join(VERIF, 'benign')

# which properties' checks exercise a file (besides the property the change was written for)
FILE_PROPS = [
    ('utility/bounded_', ['C16', 'C17', 'C07', 'C08', 'C05']),
    ('utility/', ['C17', 'C05', 'C01']),
    ('base/table', ['C07', 'C08', 'C01', 'C05']),
    ('table.h', ['C07', 'C08', 'C13']),
    ('traits/is_fungible', ['C09', 'C14']),
    ('types/variant', ['C12', 'C01']),
    ('types/detail/variant', ['C12', 'C01']),
    ('types/optional', ['C13', 'C01']),
    ('types/result', ['C13', 'C01']),
    ('types/handle', ['C15']),
    ('base/handle', ['C15', 'C01']),
    ('rpc/', ['C14', 'C18', 'C10']),
    ('sip_hash', ['C18', 'C14']),
    ('thread_local', ['C19']),
    ('endian', ['C20']),
    ('status.h', ['C13', 'C19']),
    ('base/', ['C01', 'C03', 'C04', 'C05', 'C06', 'C10', 'C11', 'C02']),
]


def harvest_benign(wt, pid):
    for k in sorted(x for x in os.listdir(wt) if x.startswith('b') and x[1:].isdigit()):
        src = os.path.join(wt, k)
        if not os.path.isdir(src):
            continue
        dst = os.path.join(BENIGN, '%s-%s' % (pid, k))
        os.makedirs(dst, exist_ok=True)
        for f in os.listdir(src):
            if f in ('patch.diff', 'demo.cpp', 'demo.sh', 'meta.json') or f.endswith(('.h', '.hpp', '.inc')):
                shutil.copy(os.path.join(src, f), os.path.join(dst, f))
        print('harvested', dst)


def confirm_benign(sid):
    """suite passes with the patch; the author's property program passes with and without it"""
    d = os.path.join(BENIGN, sid)
    wt = '/tmp/benignconfirm-' + sid
    sh('git -C %s worktree remove --force %s' % (REPO, wt))
    sh('git -C %s worktree add -q %s HEAD' % (REPO, wt))
    res = {}
    try:
        mk = sid.split('-')[1]
        os.makedirs(os.path.join(wt, mk), exist_ok=True)
        for f in os.listdir(d):
            shutil.copy(os.path.join(d, f), os.path.join(wt, mk, f))
        rc, out = sh('sh %s/demo.sh' % mk, cwd=wt, timeout=900)
        res['demo_without_patch'] = 'pass' if rc == 0 and 'FAIL' not in out else 'FAIL(rc=%d)' % rc
        rc, out = sh('git apply %s/patch.diff' % mk, cwd=wt)
        res['patch_applies'] = rc == 0
        rc, out = sh('make -j8 2>&1 | tail -3 && out/test 2>&1 | tail -3', cwd=wt, timeout=1800)
        res['tests_with_patch'] = 'pass' if ('PASSED  ] 315 tests' in out and 'FAILED' not in out) else 'FAIL: ' + out[-300:]
        rc, out = sh('sh %s/demo.sh' % mk, cwd=wt, timeout=900)
        res['demo_with_patch'] = 'pass' if rc == 0 and 'FAIL' not in out else 'FAIL(rc=%d)' % rc
        res['confirmed'] = (res['demo_without_patch'] == 'pass' and res['patch_applies'] and res['tests_with_patch'] == 'pass'
                            and res['demo_with_patch'] == 'pass')
    finally:
        sh('git -C %s worktree remove --force %s' % (REPO, wt))
    mp = os.path.join(d, 'meta.json')
    meta = json.load(open(mp)) if os.path.exists(mp) else {}
    meta['confirmation'] = res
    json.dump(meta, open(mp, 'w'), indent=1)
    print(sid, json.dumps(res))


def quiet(sid, tier):
    """a harmless change: the checks of every property that exercises the touched files must stay quiet"""
    d = os.path.join(BENIGN, sid)
    rc, out = sh('git -C %s status --porcelain' % REPO)
    if out.strip():
        print('refusing: /repo working tree is not clean'); return
    patch = open(os.path.join(d, 'patch.diff')).read()
    files = [l[6:] for l in patch.split('\n') if l.startswith('+++ b/')]
    props = [sid.split('-')[0]]
    for f in files:
        for (frag, ps) in FILE_PROPS:
            if frag in f:
                for p in ps:
                    if p not in props:
                        props.append(p)
                break
    rc, out = sh('git -C %s apply %s/patch.diff' % (REPO, d))
    if rc != 0:
        print('patch does not apply', out); return
    results = {}
    try:
        for p in props:
            rc, out = sh('python3 %s/check.py %s --tier %s' % (HERE, p, tier), cwd=VERIF, timeout=7200)
            vio = [l for l in out.split('\n') if l.startswith('VIOLATION')]
            results[p] = dict(exit=rc, violation=vio[0] if vio else None,
                              first=[l.strip()[:600] for l in out.split('\n') if l.strip().startswith('- ')][:3])
            print(sid, p, 'exit', rc, (vio[0][:160] if vio else 'quiet'))
    finally:
        sh('git -C %s checkout -- .' % REPO)
    mp = os.path.join(d, 'meta.json')
    meta = json.load(open(mp)) if os.path.exists(mp) else {}
    meta['checks_run'] = results
    json.dump(meta, open(mp, 'w'), indent=1)


def main():
    a = sys.argv[1:]
    if a[0] == 'harvest':
        harvest(a[1], a[2])
    elif a[0] == 'confirm':
        for sid in a[1:]:
            confirm(sid)
    elif a[0] == 'harvest-benign':
        harvest_benign(a[1], a[2])
    elif a[0] == 'confirm-benign':
        for sid in a[1:]:
            confirm_benign(sid)
    elif a[0] == 'quiet':
        for sid in a[1:]:
            quiet(sid, 'quick')
    elif a[0] == 'detect':
        props = None; tier = 'quick'; ids = []
        i = 1
        while i < len(a):
            if a[i] == '--props': props = a[i + 1].split(','); i += 2
            elif a[i] == '--tier': tier = a[i + 1]; i += 2
            else: ids.append(a[i]); i += 1
        for sid in ids:
            detect(sid, props or [sid.split('-')[0]], tier)


if __name__ == '__main__':
    main()
