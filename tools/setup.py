#!/usr/bin/env python3
"""Build everything the checks need from files on disk: Lean library (all proofs) + native
model driver, and the C++ harness for the current /repo tree (warm the cache)."""
import os
import sys
sys.path.insert(0, os.path.dirname(os.path.abspath(__file__)))
import nv

def main():
    try:
        import extract
        extract.generate()
    except ImportError:
        pass
    nv.build_lean()
    nv.build_codec('a')
    nv.build_codec('a', 'rel')
    nv.build_codec('h')
    nv.build_util()
    nv.build_pair('x')
    nv.build_pair('f')
    nv.build_rpc()
    nv.build_thread()
    nv.build_single('life', 'life_main.cpp')
    print('setup ok')

if __name__ == '__main__':
    main()
