#!/usr/bin/env python3
"""Static-storage inventory of /repo/include (C19): every declaration with static or thread
storage duration that is not a compile-time constant. Regenerated on every run and compared with
the inventory the C19 model is built on (tools/statics_expected.json): the model's assumption is
that the only such state is ThreadLocal's function-local `static thread_local Optional<T>`."""
import json
import os
import re
import sys

HERE = os.path.dirname(os.path.abspath(__file__))
REPO_INCLUDE = os.path.join(os.environ.get('NOP_REPO', '/repo'), 'include')


def strip(src):
    """remove comments and string/char literals, keep line structure"""
    out = []
    i, n = 0, len(src)
    while i < n:
        c = src[i]
        if src.startswith('//', i):
            j = src.find('\n', i)
            j = n if j < 0 else j
            i = j
        elif src.startswith('/*', i):
            j = src.find('*/', i + 2)
            j = n if j < 0 else j + 2
            out.append(''.join(ch if ch == '\n' else ' ' for ch in src[i:j]))
            i = j
        elif c == '"' or c == "'":
            j = i + 1
            while j < n and src[j] != c:
                j += 2 if src[j] == '\\' else 1
            out.append(c + c)
            i = j + 1
        else:
            out.append(c)
            i += 1
    return ''.join(out)


KEYWORD_STMT = re.compile(r'^\s*(using|typedef|template|struct|class|union|enum|namespace|friend|static_assert|return|public|private|protected|'
                          r'extern\s+"C"|#)')


def scan(path, text):
    found = []
    code = strip(text)
    # macro bodies (continued lines) are code too; join continuations
    code = code.replace('\\\n', '  ')
    # 1. explicit static / thread_local declarations that are not functions or constants
    for m in re.finditer(r'\b(static|thread_local)\b', code):
        start = m.start()
        if re.match(r'static_(assert|cast)', code[start:start + 13]):
            continue
        # declaration text up to the first of ; { ( =
        end = start
        depth = 0
        while end < len(code):
            ch = code[end]
            if ch == '<':
                depth += 1
            elif ch == '>':
                depth = max(0, depth - 1)
            elif depth == 0 and ch in ';{(=':
                break
            end += 1
        decl = ' '.join(code[start:end].split())
        term = code[end] if end < len(code) else ''
        if term == '(':
            continue                                   # a (static member) function
        if re.search(r'\b(constexpr|const)\b', decl):
            continue                                   # compile-time / immutable data
        if decl in ('static', 'thread_local'):
            continue
        # the same declaration is met twice for `static thread_local`: keep the first keyword only
        before = code[max(0, start - 8):start]
        if re.search(r'\bstatic\s*$', before):
            continue
        line = code.count('\n', 0, start) + 1
        found.append(dict(file=os.path.relpath(path, REPO_INCLUDE), line=line, decl=decl))
    # 2. namespace-scope variable definitions without `static`
    stack = []          # kinds of open braces
    stmt_start = 0
    i = 0
    while i < len(code):
        ch = code[i]
        if ch == '{':
            head = code[stmt_start:i]
            kind = 'ns' if re.search(r'\bnamespace\b[^;{}()]*$', head) else ('ext' if re.search(r'extern\s*""\s*$', head) else 'other')
            stack.append(kind)
            stmt_start = i + 1
        elif ch == '}':
            if stack:
                stack.pop()
            stmt_start = i + 1
        elif ch == ';':
            stmt = code[stmt_start:i]
            if all(k in ('ns', 'ext') for k in stack):
                s = ' '.join(stmt.split())
                if s and not KEYWORD_STMT.match(s) and '(' not in s and not re.search(r'\b(constexpr|const|static|thread_local|operator)\b', s) \
                        and re.match(r'^[A-Za-z_:][\w:<>,\s\*&]*\s+[A-Za-z_]\w*(\s*=.*|\s*\{.*\})?$', s):
                    line = code.count('\n', 0, stmt_start) + 1
                    found.append(dict(file=os.path.relpath(path, REPO_INCLUDE), line=line, decl=s))
            stmt_start = i + 1
        i += 1
    return found


def inventory():
    inv = []
    for root, _, files in os.walk(REPO_INCLUDE):
        for f in sorted(files):
            if f.endswith(('.h', '.hpp')):
                p = os.path.join(root, f)
                inv += scan(p, open(p, errors='replace').read())
    inv.sort(key=lambda d: (d['file'], d['line']))
    return inv


def expected():
    return json.load(open(os.path.join(HERE, 'statics_expected.json')))


def compare():
    """returns (inventory, unexpected entries, missing entries).  An expected entry stands for what the
    C19 model has: *one per-thread slot* declared in that file - it is matched by any single declaration
    with thread storage duration there, whatever its spelling (`static thread_local Optional<T> value`,
    `thread_local Storage storage`, ...); storage shared by all threads never matches."""
    inv = inventory()
    exp = expected()
    used = set()
    missing = []
    for e in exp:
        hit = None
        for i, d in enumerate(inv):
            if i in used or d['file'] != e['file']:
                continue
            if re.search(r'\bthread_local\b', e['decl']):
                ok = re.search(r'\bthread_local\b', d['decl']) is not None
            else:
                ok = d['decl'] == e['decl']
            if ok:
                hit = i
                break
        if hit is None:
            missing.append(e)
        else:
            used.add(hit)
    unexpected = [d for i, d in enumerate(inv) if i not in used]
    return inv, unexpected, missing


if __name__ == '__main__':
    inv, un, mi = compare() if os.path.exists(os.path.join(HERE, 'statics_expected.json')) else (inventory(), [], [])
    print(json.dumps(dict(inventory=inv, unexpected=un, missing=mi), indent=1))
