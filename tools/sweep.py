#!/usr/bin/env python3
"""Rehearsal sweeps in parallel: python3 tools/sweep.py benign|seeded [-j N] [--tier quick] [--props C01,C02] <id>...

Each worker has its own scratch worktree of /repo (/tmp/rw<k>) and its own copy of /verif
(/tmp/vw<k>, so Lean build directory, evidence and replays do not collide); a change is applied
to the worktree, the checks run with NOP_REPO pointing at it, and the worktree is restored.
The registered commands are untouched: they always run /verif against /repo itself.
Results are merged into <kind>/<id>/meta.json ('checks_run' for benign, 'detection' for seeded)."""
import concurrent.futures as cf
import json
import os
import queue
import shutil
import subprocess
import sys

HERE = os.path.dirname(os.path.abspath(__file__))
VERIF = os.path.dirname(HERE)
sys.path.insert(0, HERE)
import seeds  # noqa: E402


def sh(cmd, cwd=None, timeout=7200, env=None):
    p = subprocess.run(cmd, shell=True, cwd=cwd, stdout=subprocess.PIPE, stderr=subprocess.STDOUT, text=True, timeout=timeout, env=env)
    return p.returncode, p.stdout


def props_for(kind, sid, override):
    if override == ['own']:
        return [sid.split('-')[0]]
    if override:
        return override
    d = os.path.join(VERIF, kind, sid)
    props = [sid.split('-')[0]]
    if kind == 'benign':
        patch = open(os.path.join(d, 'patch.diff')).read()
        files = [l[6:] for l in patch.split('\n') if l.startswith('+++ b/')]
        for f in files:
            for (frag, ps) in seeds.FILE_PROPS:
                if frag in f:
                    for p in ps:
                        if p not in props:
                            props.append(p)
                    break
    return props


def worker(k, q, kind, tier, override, out):
    rw, vw = '/tmp/rw%d' % k, '/tmp/vw%d' % k
    sh('git -C /repo worktree remove --force %s' % rw)
    shutil.rmtree(vw, ignore_errors=True)
    sh('git -C /repo worktree add -q --detach %s HEAD' % rw)
    sh('rsync -a --exclude .git --exclude build/cache --exclude replays --exclude seeded --exclude benign %s/ %s/' % (VERIF, vw))
    env = dict(os.environ, NOP_REPO=rw, VERIF_JOBS=os.environ.get('SWEEP_JOBS', '8'))
    try:
        while True:
            try:
                sid = q.get_nowait()
            except queue.Empty:
                return
            d = os.path.join(VERIF, kind, sid)
            rc, o = sh('git -C %s apply %s/patch.diff' % (rw, d))
            if rc != 0:
                out[sid] = {'error': 'patch does not apply: ' + o[-300:]}
                continue
            res = {}
            try:
                for p in props_for(kind, sid, override):
                    try:
                        rc, o = sh('python3 %s/tools/check.py %s --tier %s' % (vw, p, tier), cwd=vw, env=env, timeout=10800)
                    except subprocess.TimeoutExpired:
                        rc, o = 124, 'TIMEOUT (rehearsal machinery, not a verdict)'
                        sh('pkill -f %s/tools/check.py' % vw)
                    vio = [l for l in o.split('\n') if l.startswith('VIOLATION')]
                    res[p] = dict(exit=rc, violation=vio[0].replace(vw, '/verif') if vio else None, tail=o.strip().split('\n')[-1][:300],
                                  first=[l.strip()[:600] for l in o.split('\n') if l.strip().startswith('- ')][:3])
                    print(sid, p, 'exit', rc, (vio[0][:150] if vio else ('quiet' if rc == 0 else o.strip()[-200:])), flush=True)
                    with open('/tmp/sweep_results.jsonl', 'a') as f:
                        f.write(json.dumps(dict(kind=kind, sid=sid, prop=p, res=res[p])) + '\n')
            finally:
                sh('git -C %s checkout -- .' % rw)
            out[sid] = res
    finally:
        sh('git -C /repo worktree remove --force %s' % rw)
        shutil.rmtree(vw, ignore_errors=True)


def main():
    a = sys.argv[1:]
    kind = a[0]
    j, tier, override, ids = 4, 'quick', None, []
    i = 1
    while i < len(a):
        if a[i] == '-j': j = int(a[i + 1]); i += 2
        elif a[i] == '--tier': tier = a[i + 1]; i += 2
        elif a[i] == '--props': override = a[i + 1].split(','); i += 2
        else: ids.append(a[i]); i += 1
    q = queue.Queue()
    for s in ids:
        q.put(s)
    out = {}
    with cf.ThreadPoolExecutor(max_workers=j) as ex:
        list(ex.map(lambda k: worker(k, q, kind, tier, override, out), range(j)))
    sh('git -C /repo worktree prune')
    for sid, res in out.items():
        mp = os.path.join(VERIF, kind, sid, 'meta.json')
        meta = json.load(open(mp)) if os.path.exists(mp) else {}
        if kind == 'benign' and override == ['own']:
            meta['checks_rerun_final'] = res
        elif kind == 'benign':
            meta['checks_run'] = res
        else:
            meta.setdefault('detection', {}).update(res)
        json.dump(meta, open(mp, 'w'), indent=1)
    print('SWEEP-DONE', len(out))


if __name__ == '__main__':
    main()
